#!/bin/bash
# false-alarm test: every behaviour-preserving change under /verif/benign against every quick check (6 lanes)
cd /verif
ids=$(ls benign | grep -E '^B[0-9]+[a-z]$')
lane() { for id in "$@"; do python3 tools/seedtest.py benign/$id --all > benign/$id/result.json 2> /tmp/mut/$id.err
  python3 - $id <<'PY'
import json,sys
id=sys.argv[1]
try:
    d=json.load(open('/verif/benign/%s/result.json'%id))
    print(id,'suite:',str(d.get('repo_tests_with_change'))[:11],'ALARMS:',d.get('caught_by'),'inconcl:',d.get('inconclusive'),[(p,v['signatures'][:2]) for p,v in d.get('checks',{}).items() if v['exit']!=0], d.get('error',''))
except Exception as e: print(id,'ERROR',e)
PY
done; }
mkdir -p /tmp/mut
a=(); b=(); c=(); d=(); e=(); f=(); i=0
for id in $ids; do case $((i%6)) in 0) a+=($id);; 1) b+=($id);; 2) c+=($id);; 3) d+=($id);; 4) e+=($id);; 5) f+=($id);; esac; i=$((i+1)); done
lane "${a[@]}" & lane "${b[@]}" & lane "${c[@]}" & lane "${d[@]}" & lane "${e[@]}" & lane "${f[@]}" & wait
