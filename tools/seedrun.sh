#!/bin/bash
# usage: [SEED_OUT=/tmp/seed9 VARIANTS="n r"] tools/seedrun.sh <Cxx> [extra props comma-separated]  -> tests the variants (default a b) from $SEED_OUT (default /tmp/seed-out)
id=$1; extra=$2
O=${SEED_OUT:-/tmp/seed-out}
for v in ${VARIANTS:-a b}; do
  [ -f $O/$id/$v/patch.diff ] || continue
  props=$id; [ -n "$extra" ] && props="$id,$extra"
  python3 /verif/tools/seedtest.py $O/$id/$v --props $props > $O/$id/$v/result.json 2>$O/$id/$v/result.err
  python3 - "$id/$v" $O/$id/$v/result.json <<'PY'
import json,sys
try:
    d=json.load(open(sys.argv[2]))
    print(sys.argv[1], 'clean:',d.get('demo_on_clean_tree'), 'suite:',str(d.get('repo_tests_with_change'))[:12], 'demo+change:',d.get('demo_with_change'), 'caught_by', d.get('caught_by'), 'inconcl', d.get('inconclusive'), [(p,v['signatures'][:2]) for p,v in d.get('checks',{}).items()])
except Exception as e:
    print(sys.argv[1], 'ERROR', e)
PY
done
