#!/bin/bash
# usage: tools/seedrun.sh <Cxx> [extra props comma-separated]  -> tests variants a and b from /tmp/seed-out
id=$1; extra=$2
for v in a b; do
  [ -f /tmp/seed-out/$id/$v/patch.diff ] || continue
  props=$id; [ -n "$extra" ] && props="$id,$extra"
  python3 /verif/tools/seedtest.py /tmp/seed-out/$id/$v --props $props > /tmp/seed-out/$id/$v/result.json 2>/tmp/seed-out/$id/$v/result.err
  python3 - "$id/$v" /tmp/seed-out/$id/$v/result.json <<'PY'
import json,sys
try:
    d=json.load(open(sys.argv[2]))
    print(sys.argv[1], 'clean:',d.get('demo_on_clean_tree'), 'suite:',str(d.get('repo_tests_with_change'))[:12], 'demo+change:',d.get('demo_with_change'), 'caught_by', d.get('caught_by'), 'inconcl', d.get('inconclusive'), [(p,v['signatures'][:2]) for p,v in d.get('checks',{}).items()])
except Exception as e:
    print(sys.argv[1], 'ERROR', e)
PY
done
