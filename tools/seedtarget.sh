#!/bin/bash
# runs every seeded change matching $1 (regex, default all) against its own property's quick check (6 lanes)
cd /verif
pat=${1:-.}
ids=$(ls seeded | grep -E '^C[0-9]+[a-z]$' | grep -E "$pat")
lane() { for id in "$@"; do p=${id:0:3}; python3 tools/seedtest.py seeded/$id --props $p > seeded/$id/target.json 2> /tmp/mut/$id.err; python3 - $id <<'PY'
import json,sys
id=sys.argv[1]
try:
    d=json.load(open('/verif/seeded/%s/target.json'%id))
    print(id,'clean:',d.get('demo_on_clean_tree'),'suite:',str(d.get('repo_tests_with_change'))[:11],'demo+change:',d.get('demo_with_change'),'caught_by',d.get('caught_by'),'inconcl',d.get('inconclusive'),[v['signatures'][:2] for v in d.get('checks',{}).values()])
except Exception as e: print(id,'ERROR',e)
PY
done; }
mkdir -p /tmp/mut
a=(); b=(); c=(); d=(); e=(); f=(); i=0
for id in $ids; do case $((i%6)) in 0) a+=($id);; 1) b+=($id);; 2) c+=($id);; 3) d+=($id);; 4) e+=($id);; 5) f+=($id);; esac; i=$((i+1)); done
lane "${a[@]}" & lane "${b[@]}" & lane "${c[@]}" & lane "${d[@]}" & lane "${e[@]}" & lane "${f[@]}" & wait
