#!/bin/bash
# Line/function coverage of /repo/src reached by the quick-tier workloads (layer C of DESIGN.md §2).
# usage: tools/coverage.sh [props...]   -> prints a per-file table, writes coverage/summary.json and coverage/uncovered.txt
set -e
cd /verif/harness
BIN=$HOME/.rustup/toolchains/nightly-x86_64-unknown-linux-gnu/lib/rustlib/x86_64-unknown-linux-gnu/bin
export CARGO_NET_OFFLINE=true
CARGO_TARGET_DIR=target-cov RUSTFLAGS="-C instrument-coverage" cargo +nightly build --release --offline 2>&1 | tail -1
mkdir -p /verif/coverage out/cov; rm -f out/cov/*.profraw
props="$@"; [ -z "$props" ] && props=$(./target-cov/release/jv list)
for p in $props; do
  LLVM_PROFILE_FILE="out/cov/$p-%p.profraw" ./target-cov/release/jv run $p --tier quick --seed ${VERIF_SEED:-1} --scale ${COV_SCALE:-0.2} --report out/cov/$p.json >/dev/null 2>&1 || true
done
$BIN/llvm-profdata merge -sparse out/cov/*.profraw -o out/cov/all.profdata
$BIN/llvm-cov export ./target-cov/release/jv -instr-profile=out/cov/all.profdata --summary-only -ignore-filename-regex='(/verif/|\.cargo|rustc/)' > out/cov/summary.json
python3 - <<'PY'
import json
d=json.load(open('/verif/harness/out/cov/summary.json'))
rows=[]
for f in d['data'][0]['files']:
    n=f['filename']
    if not n.startswith('/repo/src'): continue
    s=f['summary']
    rows.append((n.replace('/repo/',''), s['lines']['covered'], s['lines']['count'], s['functions']['covered'], s['functions']['count'], s['regions']['covered'], s['regions']['count']))
rows.sort()
out={"files":[{"file":r[0],"lines_covered":r[1],"lines":r[2],"functions_covered":r[3],"functions":r[4],"regions_covered":r[5],"regions":r[6]} for r in rows]}
tl=sum(r[2] for r in rows); cl=sum(r[1] for r in rows)
out["total_line_pct"]=round(100.0*cl/max(tl,1),1)
json.dump(out,open('/verif/coverage/summary.json','w'),indent=1)
for r in rows: print("%-28s lines %5d/%5d (%5.1f%%)  functions %3d/%3d" % (r[0],r[1],r[2],100.0*r[1]/max(r[2],1),r[3],r[4]))
print("TOTAL lines %.1f%%" % out["total_line_pct"])
PY
$BIN/llvm-cov show ./target-cov/release/jv -instr-profile=out/cov/all.profdata /repo/src/*.rs /repo/src/jsonpath/*.rs 2>/dev/null | grep -E '^(/repo/src.*:$| +[0-9]+\| +0\|)' | cut -c1-160 > /verif/coverage/uncovered_lines.txt || true
rm -f out/cov/*.profraw
props="$@"; [ -z "$props" ] && props=$(./target-cov/release/jv list)
for p in $props; do
  LLVM_PROFILE_FILE="out/cov/$p-%p.profraw" ./target-cov/release/jv run $p --tier quick --seed ${VERIF_SEED:-1} --scale ${COV_SCALE:-0.2} --report out/cov/$p.json >/dev/null 2>&1 || true
done
$BIN/llvm-profdata merge -sparse out/cov/*.profraw -o out/cov/all.profdata
$BIN/llvm-cov export ./target-cov/release/jv -instr-profile=out/cov/all.profdata --summary-only -ignore-filename-regex='(/verif/|\.cargo|rustc/)' > out/cov/summary.json
python3 - <<'PY'
import json
d=json.load(open('/verif/harness/out/cov/summary.json'))
rows=[]
for f in d['data'][0]['files']:
    n=f['filename']
    if not n.startswith('/repo/src'): continue
    s=f['summary']
    rows.append((n.replace('/repo/',''), s['lines']['covered'], s['lines']['count'], s['functions']['covered'], s['functions']['count'], s['regions']['covered'], s['regions']['count']))
rows.sort()
out={"files":[{"file":r[0],"lines_covered":r[1],"lines":r[2],"functions_covered":r[3],"functions":r[4],"regions_covered":r[5],"regions":r[6]} for r in rows]}
tl=sum(r[2] for r in rows); cl=sum(r[1] for r in rows)
out["total_line_pct"]=round(100.0*cl/max(tl,1),1)
json.dump(out,open('/verif/coverage/summary.json','w'),indent=1)
for r in rows: print("%-28s lines %5d/%5d (%5.1f%%)  functions %3d/%3d" % (r[0],r[1],r[2],100.0*r[1]/max(r[2],1),r[3],r[4]))
print("TOTAL lines %.1f%%" % out["total_line_pct"])
PY
$BIN/llvm-cov report ./target-cov/release/jv -instr-profile=out/cov/all.profdata -show-functions /repo/src/*.rs /repo/src/jsonpath/*.rs 2>/dev/null | awk 'NF>=4 && ($NF=="0.00%" || $(NF-3)=="0.00%")' | head -100 > /verif/coverage/uncovered.txt || true
rm -f out/cov/*.profraw
