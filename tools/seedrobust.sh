#!/bin/bash
# detection robustness: every seeded change against its own property's quick check at other VERIF_SEED values
cd /verif
seeds=${1:-2,3,4}
pat=${2:-.}; ids=$(ls seeded | grep -E "^C[0-9]+[a-z]$" | grep -E "$pat")
lane() { for id in "$@"; do p=${id:0:3}
  python3 tools/seedtest.py seeded/$id --props $p --seeds $seeds > seeded/$id/robust.json 2> /tmp/mut/$id.err
  python3 - $id <<'PY'
import json,sys
id=sys.argv[1]
try:
    d=json.load(open('/verif/seeded/%s/robust.json'%id))
    miss=[k for k,v in d['checks'].items() if v['exit']!=1]
    print(id,'caught at',len(d['checks'])-len(miss),'of',len(d['checks']),'seeds','MISSED:%s'%miss if miss else '')
except Exception as e: print(id,'ERROR',e)
PY
done; }
a=(); b=(); c=(); d=(); e=(); f=(); i=0
for id in $ids; do case $((i%6)) in 0) a+=($id);; 1) b+=($id);; 2) c+=($id);; 3) d+=($id);; 4) e+=($id);; 5) f+=($id);; esac; i=$((i+1)); done
lane "${a[@]}" & lane "${b[@]}" & lane "${c[@]}" & lane "${d[@]}" & lane "${e[@]}" & lane "${f[@]}" & wait
