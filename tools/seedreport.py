#!/usr/bin/env python3
"""Builds the mutation table of DESIGN.md section 10 from seeded/*/result.json (written by tools/seedmatrix.sh)."""
import json, os, re, sys
ROOT = os.path.dirname(os.path.dirname(os.path.abspath(__file__)))
rows = []
stats = {"n": 0, "own": 0, "any": 0}
for d in sorted(os.listdir(os.path.join(ROOT, "seeded"))):
    p = os.path.join(ROOT, "seeded", d)
    if not os.path.isdir(p):
        continue
    meta = json.load(open(os.path.join(p, "meta.json")))
    rp = os.path.join(p, "result.json")
    own_only = False
    if not (os.path.exists(rp) and os.path.getsize(rp) > 0):
        # no full matrix for this seed: fall back to the run against its own property's check
        rp = os.path.join(p, "target.json")
        own_only = True
    res = json.load(open(rp)) if os.path.exists(rp) and os.path.getsize(rp) > 0 else {}
    notes = open(os.path.join(p, "notes.md")).read() if os.path.exists(os.path.join(p, "notes.md")) else ""
    # first sentence-ish of the notes as the description
    txt = re.sub(r"[#*`]", "", notes)
    lines = [l.strip(" -") for l in txt.splitlines() if len(l.strip()) > 25 and not l.lower().startswith(("command", "cargo", "verif"))]
    desc = (lines[0] if lines else "")[:170]
    own = meta["breaks_property"]
    caught = res.get("caught_by", [])
    stats["n"] += 1
    stats["own"] += own in caught
    stats["any"] += bool(caught)
    sig = ""
    if own in res.get("checks", {}) and res["checks"][own]["signatures"]:
        sig = res["checks"][own]["signatures"][0].split("/", 1)[1][:60]
    ok = res.get("repo_tests_with_change") == "BASELINE-OK" and res.get("demo_with_change") == "fails" and res.get("demo_on_clean_tree") == "pass"
    rows.append("| %s | %s | %s | %s | %s | %s |" % (d, desc.replace("|", "/"), "yes" if ok else "NO", "**yes**" if own in caught else "no", ("(own check only)" if own_only else (" ".join(c for c in caught if c != own) or "—")), sig.replace("|", "/")))
print("| seed | what the change does (from the sub-agent's notes) | confirmed (suite unchanged, demo fails with / passes without) | caught by its own property's quick check | also caught by | first signature |")
print("|---|---|---|---|---|---|")
print("\n".join(rows))
print("\n%d seeded changes; %d reported by the quick check of the property they were written against, %d by at least one quick check." % (stats["n"], stats["own"], stats["any"]))
