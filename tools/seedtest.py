#!/usr/bin/env python3
"""Confirm a seeded change and run checks against it, in a scratch worktree outside /repo and /verif.

  tools/seedtest.py <dir with patch.diff + demo.rs> [--props C05,C07 | --all] [--keep] [--miri]

Steps: scratch worktree of /repo HEAD -> demo passes on clean tree -> apply patch -> it builds,
the repository's own suite still matches the baseline, the demo fails -> run the requested
checks with VERIF_REPO pointing at the worktree -> remove worktree and its build output.
Prints one JSON object (also usable as meta.json material).
"""
import json, os, subprocess, sys, shutil, hashlib, time

ROOT = os.path.dirname(os.path.dirname(os.path.abspath(__file__)))


def sh(cmd, cwd=None, env=None, timeout=3600):
    r = subprocess.run(cmd, cwd=cwd, env=env, shell=isinstance(cmd, str), capture_output=True, text=True, timeout=timeout)
    return r.returncode, r.stdout + r.stderr


def main():
    a = sys.argv[1:]
    d = os.path.abspath(a[0])
    props = []
    if "--props" in a:
        props = a[a.index("--props") + 1].split(",")
    if "--all" in a:
        props = ["C%02d" % i for i in range(1, 21)]
    keep = "--keep" in a
    miri = "--miri" in a
    tier = "thorough" if "--thorough" in a else "quick"
    seeds = [int(x) for x in a[a.index("--seeds") + 1].split(",")] if "--seeds" in a else [int(os.environ.get("VERIF_SEED", "1"))]
    quickcheck_only = "--no-confirm" in a
    name = hashlib.sha1(d.encode()).hexdigest()[:8]
    wt = "/tmp/mut/%s" % name
    os.makedirs("/tmp/mut", exist_ok=True)
    if os.path.exists(wt):
        sh(["git", "-C", "/repo", "worktree", "remove", "--force", wt])
    rc, out = sh(["git", "-C", "/repo", "worktree", "add", "--detach", wt, "HEAD", "-q"])
    res = {"seed_dir": d, "worktree": wt}
    env = dict(os.environ, CARGO_NET_OFFLINE="true")
    try:
        # reuse the repository's build output for speed
        if os.path.exists("/repo/target") and not os.path.exists(wt + "/target"):
            sh(["cp", "-r", "/repo/target", wt + "/target"])
        demo = os.path.join(d, "demo.rs")
        has_demo = os.path.exists(demo)
        if has_demo:
            shutil.copy(demo, wt + "/tests/seeded_demo.rs")
            rc, out = sh("cargo test --offline --test seeded_demo 2>&1 | tail -15", cwd=wt, env=env)
            res["demo_on_clean_tree"] = "pass" if "test result: ok" in out else "FAIL"
        if has_demo:
            os.remove(wt + "/tests/seeded_demo.rs")
        rc, out = sh(["git", "apply", os.path.join(d, "patch.diff")], cwd=wt)
        if rc != 0:
            res["error"] = "patch does not apply: " + out[-500:]
            print(json.dumps(res, indent=1))
            return 2
        rc, out = sh([os.path.join(ROOT, "tools", "repo_tests.sh"), wt], env=env)
        res["repo_tests_with_change"] = "BASELINE-OK" if "BASELINE-OK" in out else "MISMATCH: " + out[-800:]
        if has_demo:
            shutil.copy(demo, wt + "/tests/seeded_demo.rs")
            rc, out = sh("cargo test --offline --test seeded_demo 2>&1 | tail -30", cwd=wt, env=env)
            res["demo_with_change"] = "fails" if ("test result: FAILED" in out or "panicked" in out) else ("passes(!)" if "test result: ok" in out else "error: " + out[-400:])
            os.remove(wt + "/tests/seeded_demo.rs")
        caught = {}
        cenv = dict(env, VERIF_REPO=wt)
        if not miri:
            cenv["VERIF_NO_MIRI"] = "1"
        cenv["VERIF_NO_ASAN"] = "1"
        cenv["VERIF_EVIDENCE_DIR"] = "/tmp/mut/evidence-%s" % name
        cenv["VERIF_REPLAY_DIR"] = "/tmp/mut/replays-%s" % name
        for p in props:
            for sd in seeds:
                t0 = time.time()
                rc, out = sh([os.path.join(ROOT, "check"), p, tier], cwd=ROOT, env=dict(cenv, VERIF_SEED=str(sd)))
                sigs = [l.strip()[len("signature: "):] for l in out.splitlines() if l.strip().startswith("signature: ")]
                key = p if len(seeds) == 1 else "%s@seed%d" % (p, sd)
                caught[key] = {"exit": rc, "signatures": sigs[:6], "wall_s": round(time.time() - t0, 1)}
        res["checks"] = caught
        res["caught_by"] = [p for p, v in caught.items() if v["exit"] == 1]
        res["inconclusive"] = [p for p, v in caught.items() if v["exit"] not in (0, 1)]
    finally:
        if not keep:
            sh(["git", "-C", "/repo", "worktree", "remove", "--force", wt])
            sfx = hashlib.sha1(wt.encode()).hexdigest()[:6]
            for fl in ("native", "miri", "asan"):
                shutil.rmtree(os.path.join(ROOT, "harness", "target-%s-%s" % (fl, sfx)), ignore_errors=True)
        shutil.rmtree("/tmp/mut/evidence-%s" % name, ignore_errors=True)
        shutil.rmtree("/tmp/mut/replays-%s" % name, ignore_errors=True)
    print(json.dumps(res, indent=1))
    return 0


if __name__ == "__main__":
    sys.exit(main())
