#!/bin/bash
# Runs the repository's own test suite (guard off) and checks it against the baseline:
# 71 stable passes, the only permitted failure is functions::test_to_serde_json (fails at the pinned commit too).
cd "${1:-/repo}" || exit 2
out=$(CARGO_NET_OFFLINE=true cargo test --workspace --no-fail-fast --offline 2>&1)
[ -n "$REPO_TESTS_VERBOSE" ] && echo "$out"
passed=$(echo "$out" | grep -E '^test .* \.\.\. ok$' | wc -l)
failed=$(echo "$out" | grep -E '^test .* \.\.\. FAILED$' | sed 's/^test //; s/ \.\.\. FAILED$//' | sort | tr '\n' ' ')
echo "passed=$passed failed=[$failed]"
if [ "$passed" -ge 71 ] && [ "$failed" = "functions::test_to_serde_json " ]; then echo BASELINE-OK; exit 0; fi
echo "$out" | tail -40
echo BASELINE-MISMATCH; exit 1
