#!/bin/bash
# runs every seeded change against every quick check (4 lanes); writes seeded/<id>/result.json
cd /verif
pat=${1:-.}; ids=$(ls seeded | grep -E "^C[0-9]+[a-z]$" | grep -E "$pat")
lane() { for id in "$@"; do python3 tools/seedtest.py seeded/$id --all > seeded/$id/result.json 2> /tmp/mut/$id.err; echo "$id done"; done; }
mkdir -p /tmp/mut
a=(); b=(); c=(); d=(); e=(); f=(); i=0
for id in $ids; do case $((i%6)) in 0) a+=($id);; 1) b+=($id);; 2) c+=($id);; 3) d+=($id);; 4) e+=($id);; 5) f+=($id);; esac; i=$((i+1)); done
lane "${a[@]}" & lane "${b[@]}" & lane "${c[@]}" & lane "${d[@]}" & lane "${e[@]}" & lane "${f[@]}" & wait
