#!/usr/bin/env python3
"""Regenerates /verif/MANIFEST.json from the table below (kept in one place so it stays valid)."""
import json, os
ROOT = os.path.dirname(os.path.dirname(os.path.abspath(__file__)))

# property -> (technique, level text, level note, design ref)
CLAIMED = {
 "C01": ("differential runtime monitor: independent README-derived encoder + strict decoder observing every Value::to_vec / from_slice / parse_jsonb call; small-scope exhaustive + random documents; Miri slice in thorough",
         "Held on every observed execution: library bytes equal an independent encoder's bytes, the strict decoder and both library decoders return the same value, re-encoding is identical. Exploration only: the claim is universal over an unbounded value space.",
         "trusted: refcodec.rs (encoder/strict decoder written from the README), the generators' coverage of shapes"),
 "C02": ("differential runtime monitor: independent RFC 8259 + listed-relaxations recogniser/parser as oracle on parse_value / parse_lazy_value; exhaustive length<=4 strings over a 25-symbol alphabet, generated documents with spelling variants, single corruptions, token soups; Miri slice",
         "Held on observed inputs: accept/reject outcome and decoded value equal the reference on every text tried, no panic. Exploration: the language is infinite.",
         "trusted: refjson.rs lenient mode and Rust std's correctly rounded f64::from_str"),
 "C03": ("runtime monitor: independent strict RFC 8259 parser applied to every to_string / to_pretty_string output, loop closed through parse_value and byte comparison, independent pretty-layout checker; sweep over Unicode scalar values (all of them in thorough)",
         "Held on observed documents: both renderings are accepted by the strict parser with the original meaning, parse back to the same value and bytes, pretty differs only by the documented whitespace.",
         "trusted: refjson.rs strict mode, layout re-formatter in c03.rs"),
 "C04": ("differential + law monitor: reference total order on trees vs compare in all four text/binary combinations, antisymmetry/reflexivity on observed results, transitivity by sorting batches with compare and checking all pairs",
         "Held on observed pairs and batches: compare equals the documented order, Equal iff same JSON value, no inverted pair in any sorted batch.",
         "trusted: refops::compare, refnum exact number order"),
 "C05": ("differential runtime monitor: every accessor result compared with the tree answer, every returned sub-value checked canonical by the strict decoder; arguments swept over all indices/keys/case variants/key paths per document; Miri slice; ASan in thorough",
         "Held on observed (document, argument) cases for all listed accessors.",
         "trusted: refops accessor semantics (Appendix A of DESIGN.md), refcodec"),
 "C06": ("differential runtime monitor with append-only monitor: each editor's output must be the canonical encoding of the tree edit, documented errors must append nothing; all positions -len-2..len+2 and i32 extremes; Miri slice and ASan in thorough",
         "Held on observed edits for all listed editors.",
         "trusted: refops editor semantics, refcodec"),
 "C07": ("history monitor: chains of 5-50 library operations over a small pool of live documents, the library's own output bytes are fed back; after every step strict decode + re-encode + shadow tree equality",
         "Held on every step of every observed chain: results stay canonical and equal to the shadow tree.",
         "trusted: refops/refpath semantics, refcodec"),
 "C08": ("differential runtime monitor: three-valued reference JSONPath evaluator on trees vs Selector::select / exists / predicate_match; document-guided path generator; arithmetic forms driven for totality; Miri slice and ASan in thorough",
         "Held on observed (path, document) pairs where the documented meaning is specified; cross-kind comparisons are observed for no-panic only.",
         "trusted: refpath evaluator (README operator table + rustdoc), path renderer"),
 "C09": ("runtime monitor: generator-known intended AST vs parsed AST under spacing / keyword-case / quoting variants, print-then-parse, raw totality (token soups, corruptions, unterminated quotes, leftovers); Miri slice in thorough",
         "Held on observed renderings and raw inputs: intended structure recovered, printing faithful, no panic, leftovers rejected.",
         "trusted: the renderer's notion of legal spacing (positions where the grammar has optional whitespace and tokens stay separable)"),
 "C10": ("fault-injection runtime monitor + Miri UB interpreter: truncation at every offset, all single bit flips, byte substitution, insert/delete, rewritten header/entry words, multi-fault sequences, invalid UTF-8 payloads, header-lookalike JSON texts; outcome / UTF-8 / prefix / text-fallback oracles",
         "Held on observed hostile inputs: no panic, no ill-formed string, every proper prefix rejected, valid JSON text decoded as text. Under Miri returned values are additionally formatted so ill-formed str is flagged as UB.",
         "trusted: refjson lenient parser for the text-fallback clause; fault generator reach"),
 "C11": ("2^k-way differential monitor: every public document function called with each argument as text or as the reference encoding of that text; observations compared with the all-binary call; header-lookalike and long-mantissa texts; Miri slice in thorough",
         "Held on observed call groups: same observable result for text and JSONB in every argument position.",
         "trusted: per-type observation functions in c11.rs (renderings compared by meaning, serde values by exact numeric meaning)"),
 "C12": ("differential + law monitor: reference containment from the statement vs contains in all four representations; reflexivity; transitivity on chains a>=b>=c built by construction; scalar case tied to compare equality",
         "Held on observed pairs/triples.",
         "trusted: refops::contains"),
 "C13": ("differential + algebraic-law monitor: reference multiset semantics vs array_distinct / intersection / except / overlap, idempotence on the library's own output, canonical outputs, append-only monitor",
         "Held on observed pairs incl. exhaustive small lists.",
         "trusted: refops set functions; element identity = equal canonical encodings"),
 "C14": ("order-embedding monitor: bytewise key order vs compare (and vs the reference order) on all pairs of batches; mismatches classified by the first differing leaf into root-cause signatures",
         "Held on observed pairs except for the listed known findings (numbers with equal double image, string/key prefix vs depth marker, depth >= 256), which are printed as KNOWN-FINDING; any other mismatch class is a VIOLATION.",
         "trusted: refops::compare; classification walk in c14.rs"),
 "C15": ("relational runtime monitor (no model): First/Array/All/Mixed/exists/predicate_match and the five convenience functions compared with each other on the same (path, document); offsets must delimit canonical items",
         "Held on observed (path, document) pairs for all modes and entry points.",
         "trusted: refcodec strict decoder for item canonicity"),
 "C16": ("runtime monitor: intended elements vs parse_key_paths under spacing variants, print-then-parse, raw totality (token soups, unterminated quotes, missing braces, random bytes); Miri slice in thorough",
         "Held on observed renderings and raw inputs.",
         "trusted: renderer in c16.rs"),
 "C17": ("append-only monitor over batches: 2-20 buffer-writing calls share one data buffer and one offsets vector; after each call earlier bytes/offsets unchanged, suffix equals empty-buffer output, offsets are positions in the shared buffer, errors append nothing; the same monitor also runs inside C01/C06/C13 workloads",
         "Held on observed batches for every buffer-writing function.",
         "none beyond determinism of the functions under test"),
 "C18": ("runtime monitor with exact-arithmetic oracle (i128 / exact int-vs-double) on Number codec, Ord/Eq and views; exhaustive 3*2^32 sweep in thorough; sorted-batch transitivity monitor; all tags x widths for malformed bytes",
         "Held on observed executions: every swept/random number round-trips bit-exactly in shortest form, malformed tags/widths rejected without panic, ordering equals the exact mathematical order on all observed pairs and sorted batches.",
         "trusted: refnum.rs exact comparison, std f64 semantics"),
 "C19": ("runtime monitor: structural walk comparing serde_json values (class and value of every number) with the tree and with an independent strict parse of the rendering; back-conversion equality; object-only variant",
         "Held on observed documents.",
         "trusted: refjson strict parser; serde_json's Number accessors"),
 "C20": ("subprocess exit-status monitor: one process per (entry point, shape, depth) cell on an 8 MiB stack, depths 1..300000; in-process checked-arithmetic cells for extreme i32 positions/indices compared with the model",
         "Held on observed cells except the listed known stack-exhaustion findings (per entry point, from a depth floor upwards); a crash below a floor, in another entry point, or any panic is a VIOLATION. A schedule of depths is observed, not every depth.",
         "8 MiB thread stack, this compiler and the checked release profile determine the depth at which recursion overflows"),
}
UNDER_CONSTRUCTION = {}

def main():
    props = [json.loads(l)["id"] for l in open(os.path.join(ROOT, "properties.jsonl"))]
    checks = []
    for p in props:
        if p not in CLAIMED:
            continue
        tech, text, note = CLAIMED[p]
        checks.append({
            "property_id": p,
            "quick_cmd": "./check %s quick" % p,
            "thorough_cmd": "./check %s thorough" % p,
            "evidence_file": "/verif/evidence/%s.json" % p,
            "replay_cmd_template": "./check --replay {path}",
            "engine": "jv",
            "level_claimed": {"category": "exploration", "text": text, "design_ref": "DESIGN.md section 5, %s" % p},
            "level_note": note,
            "technique": tech,
        })
    na = [{"property_id": p, "reason": UNDER_CONSTRUCTION.get(p, "runtime monitor for this property is not built yet in this round (planned in DESIGN.md section 5); not claimed until its check runs silent on the unchanged tree")} for p in props if p not in CLAIMED]
    m = {
        "version": 1,
        "setup_cmd": "./check setup",
        "hooks": {
            "guard": "jsonb_verif",
            "enable": "no hooks are needed: every property is observable at the public API boundary; the cfg name is reserved (RUSTFLAGS='--cfg jsonb_verif') and unused",
            "baseline_off_cmd": "REPO_TESTS_VERBOSE=1 /verif/tools/repo_tests.sh /repo",
            "source_commits": [],
            "add_only": True,
        },
        "engines": [{"name": "jv", "path": "/verif/harness", "serves_properties": sorted(CLAIMED), "kind_free_text": "Rust harness linking /repo by path: workload generators, independent reference model, online monitors (panic / UTF-8 / canonical-form / append-only), run natively with overflow checks, under Miri and under ASan; driven by /verif/check"}],
        "checks": checks,
        "not_applicable": na,
        "notes": "Technique family: runtime monitoring and sanitizers. Exit 2 from a check means inconclusive (build failure / watchdog / harness error), never folded into pass or violation.",
    }
    json.dump(m, open(os.path.join(ROOT, "MANIFEST.json"), "w"), indent=1)
    print("claimed:", sorted(CLAIMED), "unclaimed:", [x["property_id"] for x in na])

if __name__ == "__main__":
    main()
