#!/usr/bin/env python3
"""Regenerates /verif/MANIFEST.json from the table below (kept in one place so it stays valid)."""
import json, os
ROOT = os.path.dirname(os.path.dirname(os.path.abspath(__file__)))

# property -> (technique, level text, level note, design ref)
CLAIMED = {
 "C01": ("differential runtime monitor: independent README-derived encoder + strict decoder on every Value::to_vec / from_slice / parse_jsonb call; small-scope exhaustive + random documents; Miri slice in thorough",
         "Held on every observed execution: library bytes equal an independent encoder's bytes, strict decode and both library decoders return the same value, re-encoding is identical. Exploration only: universal claim over an unbounded value space.",
         "trusted: refcodec.rs (encoder/strict decoder written from README), generators' coverage of shapes"),
 "C18": ("runtime monitor with exact-arithmetic oracle (i128 / exact int-vs-double) on Number codec, Ord/Eq and views; exhaustive 3*2^32 sweep in thorough; sorted-batch transitivity monitor",
         "Held on observed executions: every swept/random number round-trips bit-exactly in shortest form, malformed tags/widths rejected without panic, ordering equals exact mathematical order on all observed pairs and sorted batches.",
         "trusted: refnum.rs exact comparison, std f64 semantics"),
}
UNDER_CONSTRUCTION = {}

def main():
    props = [json.loads(l)["id"] for l in open(os.path.join(ROOT, "properties.jsonl"))]
    checks = []
    for p in props:
        if p not in CLAIMED:
            continue
        tech, text, note = CLAIMED[p]
        checks.append({
            "property_id": p,
            "quick_cmd": "./check %s quick" % p,
            "thorough_cmd": "./check %s thorough" % p,
            "evidence_file": "/verif/evidence/%s.json" % p,
            "replay_cmd_template": "./check --replay {path}",
            "engine": "jv",
            "level_claimed": {"category": "exploration", "text": text, "design_ref": "DESIGN.md section 5, %s" % p},
            "level_note": note,
            "technique": tech,
        })
    na = [{"property_id": p, "reason": UNDER_CONSTRUCTION.get(p, "runtime monitor for this property is not built yet in this round (planned in DESIGN.md section 5); not claimed until its check runs silent on the unchanged tree")} for p in props if p not in CLAIMED]
    m = {
        "version": 1,
        "setup_cmd": "./check setup",
        "hooks": {
            "guard": "jsonb_verif",
            "enable": "no hooks are needed: every property is observable at the public API boundary; the cfg name is reserved (RUSTFLAGS='--cfg jsonb_verif') and unused",
            "baseline_off_cmd": "cd /repo && cargo test --workspace --no-fail-fast --offline",
            "source_commits": [],
            "add_only": True,
        },
        "engines": [{"name": "jv", "path": "/verif/harness", "serves_properties": sorted(CLAIMED), "kind_free_text": "Rust harness linking /repo by path: workload generators, independent reference model, online monitors (panic / UTF-8 / canonical-form / append-only), run natively with overflow checks, under Miri and under ASan; driven by /verif/check"}],
        "checks": checks,
        "not_applicable": na,
        "notes": "Technique family: runtime monitoring and sanitizers. Exit 2 from a check means inconclusive (build failure / watchdog / harness error), never folded into pass or violation.",
    }
    json.dump(m, open(os.path.join(ROOT, "MANIFEST.json"), "w"), indent=1)
    print("claimed:", sorted(CLAIMED), "unclaimed:", [x["property_id"] for x in na])

if __name__ == "__main__":
    main()
