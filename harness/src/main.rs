#![allow(dead_code, unused_imports, unused_variables, unused_mut, unused_assignments)]
//! jv — runtime-monitoring harness for b41sh/jsonb. See /verif/DESIGN.md.
//!
//!   jv run <Cnn> --tier quick|thorough --seed N [--shards N] [--only-shard I] [--threads N]
//!                [--scale F] [--miri] [--report FILE] [--stop-first] [--stop-case K]
//!   jv cell <entry> <shape> <depth>          (C20 subprocess cell)

mod gen;
mod monitor;
mod prng;
mod props;
mod refcodec;
mod refjson;
mod refnum;
mod refops;
mod refpath;
mod tree;

use monitor::{Ctx, Tier};
use serde_json::json;
use std::collections::{BTreeMap, HashSet};
use std::sync::{Arc, Mutex};
use std::time::Instant;

fn arg_val(args: &[String], name: &str) -> Option<String> {
    args.iter().position(|a| a == name).and_then(|i| args.get(i + 1).cloned())
}

fn main() {
    let args: Vec<String> = std::env::args().collect();
    if args.len() < 2 {
        eprintln!("usage: jv run <prop> ... | jv cell <entry> <shape> <depth>");
        std::process::exit(2);
    }
    match args[1].as_str() {
        "run" => run(&args[2..]),
        "cell" => props::c20::cell_main(&args[2..]),
        "list" => {
            for (id, _) in props::registry() {
                println!("{}", id);
            }
        }
        _ => {
            eprintln!("unknown command");
            std::process::exit(2);
        }
    }
}

fn run(args: &[String]) {
    let prop_id = args.first().cloned().unwrap_or_default();
    let reg = props::registry();
    let (prop, f) = match reg.iter().find(|(id, _)| *id == prop_id) {
        Some((id, f)) => (*id, *f),
        None => {
            eprintln!("unknown property {}", prop_id);
            std::process::exit(2);
        }
    };
    let tier = match arg_val(args, "--tier").as_deref() {
        Some("thorough") => Tier::Thorough,
        _ => Tier::Quick,
    };
    let seed: u64 = arg_val(args, "--seed").and_then(|s| s.parse().ok()).unwrap_or(1);
    let miri = args.iter().any(|a| a == "--miri");
    let nshards: usize = arg_val(args, "--shards").and_then(|s| s.parse().ok()).unwrap_or(16);
    let only: Option<usize> = arg_val(args, "--only-shard").and_then(|s| s.parse().ok());
    let threads: usize = arg_val(args, "--threads").and_then(|s| s.parse().ok()).unwrap_or_else(|| {
        if miri {
            1
        } else {
            std::thread::available_parallelism().map(|n| n.get()).unwrap_or(4).min(16)
        }
    });
    let scale: f64 = arg_val(args, "--scale").and_then(|s| s.parse().ok()).unwrap_or(1.0);
    let report = arg_val(args, "--report");
    let stop_first = args.iter().any(|a| a == "--stop-first");
    let stop_case: Option<u64> = arg_val(args, "--stop-case").and_then(|s| s.parse().ok());
    let label = arg_val(args, "--label").unwrap_or_else(|| "native".to_string());

    monitor::install_panic_hook();
    if let Some(r) = &report {
        *monitor::PARTIAL_PATH.lock().unwrap() = Some(format!("{}.partial", r));
    }
    let t0 = Instant::now();

    let shards: Vec<usize> = match only {
        Some(i) => vec![i],
        None => (0..nshards).collect(),
    };
    let queue = Arc::new(Mutex::new(shards.clone()));
    let results: Arc<Mutex<Vec<Ctx>>> = Arc::new(Mutex::new(Vec::new()));

    let mut handles = Vec::new();
    for _ in 0..threads.min(shards.len()).max(1) {
        let queue = queue.clone();
        let results = results.clone();
        let h = std::thread::Builder::new()
            .stack_size(if miri { 16 << 20 } else { 512 << 20 })
            .spawn(move || loop {
                let s = {
                    let mut q = queue.lock().unwrap();
                    if q.is_empty() {
                        break;
                    }
                    q.remove(0)
                };
                let mut ctx = Ctx::new(prop, seed, s, nshards, tier, scale, miri);
                ctx.stop_at_first = stop_first;
                ctx.stop_case = stop_case;
                // a panic in harness code itself (not under guard) is a harness error: inconclusive
                let r = std::panic::catch_unwind(std::panic::AssertUnwindSafe(|| f(&mut ctx)));
                if r.is_err() {
                    let pm = monitor::take_last_panic();
                    ctx.notes.push(format!("HARNESS-ERROR shard {} aborted by an unguarded panic at case {}: {:?}", s, ctx.case_no, pm));
                }
                results.lock().unwrap().push(ctx);
            })
            .unwrap();
        handles.push(h);
    }
    for h in handles {
        let _ = h.join();
    }

    let mut results = Arc::try_unwrap(results).ok().unwrap().into_inner().unwrap();
    results.sort_by_key(|c| c.shard);

    // merge
    let mut counters: BTreeMap<String, u64> = BTreeMap::new();
    let mut distinct: HashSet<u64> = HashSet::new();
    let mut samples: Vec<String> = Vec::new();
    let mut viol: BTreeMap<String, monitor::Violation> = BTreeMap::new();
    let mut exhaustive: BTreeMap<String, bool> = BTreeMap::new();
    let mut notes: Vec<String> = Vec::new();
    let mut cases: u64 = 0;
    let mut evals: u64 = 0;
    for c in results.iter_mut() {
        cases += c.case_no;
        evals += c.evals;
        for (k, v) in &c.counters {
            *counters.entry(k.clone()).or_insert(0) += v;
        }
        distinct.extend(c.distinct.drain());
        for s in &c.samples {
            if samples.len() < 12 {
                samples.push(s.clone());
            }
        }
        for (k, v) in &c.violations {
            match viol.get_mut(k) {
                Some(e) => e.count += v.count,
                None => {
                    viol.insert(k.clone(), v.clone());
                }
            }
        }
        for (k, v) in &c.exhaustive {
            let e = exhaustive.entry(k.clone()).or_insert(true);
            *e = *e && *v;
        }
        notes.extend(c.notes.iter().cloned());
    }
    let harness_error = notes.iter().any(|n| n.starts_with("HARNESS-ERROR"));

    let viol_json: Vec<_> = viol
        .values()
        .map(|v| json!({"sig": v.sig, "count": v.count, "shard": v.shard, "case_no": v.case_no, "detail": v.detail}))
        .collect();
    let rep = json!({
        "property": prop,
        "label": label,
        "tier": if tier == Tier::Quick { "quick" } else { "thorough" },
        "seed": seed,
        "nshards": nshards,
        "only_shard": only,
        "scale": scale,
        "cases": cases,
        "evals": evals.max(cases),
        "counters": counters,
        "distinct": distinct.len(),
        "samples": samples,
        "violations": viol_json,
        "exhaustive": exhaustive,
        "notes": notes,
        "harness_error": harness_error,
        "wall_s": t0.elapsed().as_secs_f64(),
    });
    let text = serde_json::to_string_pretty(&rep).unwrap();
    match report {
        Some(p) => std::fs::write(&p, text).expect("write report"),
        None => println!("{}", text),
    }
    if harness_error {
        std::process::exit(3);
    }
    std::process::exit(if viol.is_empty() { 0 } else { 1 });
}
