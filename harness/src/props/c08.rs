//! C08 — JSONPath evaluation returns exactly the items the path denotes.

use super::paths::*;
use crate::gen::{self, PathCfg, PathGen};
use crate::monitor::Ctx;
use crate::prng::Rng;
use crate::refcodec;
use crate::refpath::{self, JPath, Outcome};
use crate::tree::{hex, Tree};

pub const ARITH: &[&str] = &[
    "$.a + 3", "-$.a[*]", "+$.a", "$.a * 2", "$.a / 2", "$.a % 2", "$.a - 1", "5 + 5", "10 % 5", "$[*] ? (@.a + 3)", "$[*] ? (@ * 2)", "$.a ? (-@)", "$ ? (+@.a)", "$.a ? (@ - 1)",
    "$[0] + $[1]", "-$", "$.* ? ($.a % 2)", "$ ? (exists(@.a ? (@ + 1)))", "$.a ? (@ > 1 && @ + 1)", "$.a ? (@ * 2 || @ == 1)",
];

pub fn check(ctx: &mut Ctx, doc: &Tree, path: &JPath, text: &str) {
    let enc = refcodec::encode(doc);
    let info = || format!("path={:?} doc={} bytes={}", text, doc.show(), hex(&enc));
    ctx.count("select.calls");
    ctx.evals += 1;
    let expected = refpath::eval(path, doc);
    let class = match &expected {
        Outcome::Items(v) => match v.len() {
            0 => "items=0",
            1 => "items=1",
            _ => "items>=2",
        },
        Outcome::Bool(_) => "predicate",
        Outcome::Unspecified => "unspecified(cross-kind)",
    };
    ctx.count(&format!("expected.{}", class));
    match select(text.as_bytes(), &enc, 0) {
        Sel::ParseErr => note_parse_reject(ctx, text),
        Sel::Panic(p) => ctx.panic_violation("select", &p, &info),
        Sel::Err(e) => {
            if !matches!(expected, Outcome::Unspecified) || !refpath::has_arith(path) {
                ctx.violation("select/err-on-valid", || format!("select returned Err({}) ; {}", e, info()));
            }
        }
        Sel::Ok(got) => match &expected {
            Outcome::Unspecified => {}
            Outcome::Items(exp) => match split_items(&got) {
                None => ctx.violation("select/offsets-do-not-delimit-items", || format!("{} ; {}", show_sel(&got), info())),
                Some(items) => {
                    let exp_bytes: Vec<Vec<u8>> = exp.iter().map(refcodec::encode).collect();
                    if items != exp_bytes {
                        let sig = if doc.is_scalar() { "scalar-root" } else if items.len() != exp.len() { "item-count" } else { "item-content" };
                        ctx.violation(&format!("select/wrong-items/{}", sig), || {
                            format!("got {} item(s) {:?} expected {} item(s) {:?} ; {}", items.len(), items.iter().map(|b| hex(b)).collect::<Vec<_>>(), exp.len(), exp.iter().map(|t| t.show()).collect::<Vec<_>>(), info())
                        });
                    }
                    for it in &items {
                        ctx.check_canonical("select(item)", it, &info);
                    }
                }
            },
            Outcome::Bool(b) => {
                let want = refcodec::encode(&Tree::Bool(*b));
                if got.data != want {
                    ctx.violation("select/predicate-result", || format!("{} expected boolean {} ; {}", show_sel(&got), b, info()));
                }
            }
        },
    }
    // the same selection appended to a data buffer that already holds bytes (with no offsets
    // reported for them), in each of the four modes in turn: the offsets are positions in that
    // buffer and what they delimit is what the mode denotes (all items; the first; one array of
    // all; the item itself or, from two items on, one array)
    if ctx.case_no % 3 == 0 && enc.len() < 100_000 {
        if let Outcome::Items(exp) = &expected {
            let mode = ((ctx.case_no / 3) % 4) as usize;
            let (mut data, mut offs): (Vec<u8>, Vec<u64>) = (vec![0x5A, 0x80, 0, 0, 1], Vec::new());
            if let Sel::Ok(_) = select_into(text.as_bytes(), &enc, mode, &mut data, &mut offs) {
                let mut prev = 5usize;
                let mut items: Vec<Vec<u8>> = Vec::new();
                let mut ok = data.len() >= 5 && data[..5] == [0x5A, 0x80, 0, 0, 1];
                for &o in &offs {
                    let o = o as usize;
                    if o < prev || o > data.len() {
                        ok = false;
                        break;
                    }
                    items.push(data[prev..o].to_vec());
                    prev = o;
                }
                let as_array = || vec![refcodec::encode(&Tree::Arr(exp.clone()))];
                let exp_bytes: Vec<Vec<u8>> = match mode {
                    0 => exp.iter().map(refcodec::encode).collect(),
                    1 => exp.iter().take(1).map(refcodec::encode).collect(),
                    2 => as_array(),
                    _ if exp.len() > 1 => as_array(),
                    _ => exp.iter().map(refcodec::encode).collect(),
                };
                if !ok || prev != data.len() || items != exp_bytes {
                    ctx.violation("select/offsets-not-positions-in-prefilled-buffer", || format!("mode {}: data={} offsets={:?} (5 bytes were in the buffer, no offsets) expected {} item(s) of the path ; {}", MODE_NAMES[mode], hex(&data), offs, exp.len(), info()));
                }
            }
        }
    }
    // exists / predicate_match
    match (exists(text.as_bytes(), &enc), &expected) {
        (Err(p), _) => ctx.panic_violation("exists", &p, &info),
        (Ok(Some(Ok(e))), Outcome::Items(exp)) => {
            if e != !exp.is_empty() {
                ctx.violation("exists/wrong", || format!("exists={} expected {} ; {}", e, !exp.is_empty(), info()));
            }
        }
        (Ok(Some(Ok(e))), Outcome::Bool(_)) => {
            if !e {
                ctx.violation("exists/false-for-predicate", || info());
            }
        }
        (Ok(Some(Err(er))), Outcome::Items(_)) | (Ok(Some(Err(er))), Outcome::Bool(_)) => ctx.violation("exists/err-on-valid", || format!("{} ; {}", er, info())),
        _ => {}
    }
    if let Outcome::Bool(b) = &expected {
        match predicate_match(text.as_bytes(), &enc) {
            Err(p) => ctx.panic_violation("predicate_match", &p, &info),
            Ok(Some(Ok(m))) => {
                if m != *b {
                    ctx.violation("predicate_match/wrong", || format!("predicate_match={} expected {} ; {}", m, b, info()));
                }
            }
            Ok(Some(Err(e))) => ctx.violation("predicate_match/err-on-valid", || format!("{} ; {}", e, info())),
            Ok(None) => {}
        }
    }
    if !matches!(expected, Outcome::Unspecified) && text.len() > 1 {
        ctx.distinct(crate::prng::mix(doc.hash64(), crate::prng::hash_bytes(text.as_bytes())));
    }
}

fn totality(ctx: &mut Ctx, doc: &Tree, text: &str) {
    // arithmetic forms the parser admits: evaluation must not panic (Err accepted)
    let enc = refcodec::encode(doc);
    let info = || format!("path={:?} doc={}", text, doc.show());
    ctx.count("arith.calls");
    for mode in 0..4 {
        if let Sel::Panic(p) = select(text.as_bytes(), &enc, mode) {
            ctx.panic_violation("select(arithmetic)", &p, &info);
        }
    }
    if let Err(p) = exists(text.as_bytes(), &enc) {
        ctx.panic_violation("exists(arithmetic)", &p, &info);
    }
    if let Err(p) = predicate_match(text.as_bytes(), &enc) {
        ctx.panic_violation("predicate_match(arithmetic)", &p, &info);
    }
}

/// arithmetic is parsed but not evaluable: a filter (or predicate) that contains it next to an
/// ordinary condition must be reported as an error whenever it is evaluated for some item,
/// whatever the ordinary condition says about that item, and must be accepted silently only
/// when there is no item to evaluate it for
fn arith_is_reported(ctx: &mut Ctx, doc: &Tree, path: &JPath, rng: &mut Rng) {
    use refpath::{Expr, Lit, Operand, Step};
    if refpath::has_arith(path) {
        return;
    }
    let arith = |from_root: bool| Expr::ArithBin(*['+', '-', '*', '/', '%'].iter().nth((doc.nodes() + from_root as usize) % 5).unwrap(), Operand::Path(from_root, vec![]), Operand::Lit(Lit::Num(crate::tree::Num::U(1))));
    let combine = |e: &Expr, from_root: bool, k: usize| match k {
        0 => Expr::Or(Box::new(e.clone()), Box::new(arith(from_root))),
        1 => Expr::And(Box::new(e.clone()), Box::new(arith(from_root))),
        2 => Expr::Or(Box::new(arith(from_root)), Box::new(e.clone())),
        _ => Expr::And(Box::new(arith(from_root)), Box::new(e.clone())),
    };
    let k = rng.below(4);
    let (new_path, evaluated) = match path {
        JPath::Steps(steps) => match steps.last() {
            Some(Step::Filter(e)) => {
                let prefix = &steps[..steps.len() - 1];
                let frontier = match refpath::eval_steps(prefix, doc, doc) {
                    Ok(v) => v.len(),
                    Err(_) => return,
                };
                let mut st = prefix.to_vec();
                st.push(Step::Filter(Box::new(combine(e, false, k))));
                (JPath::Steps(st), frontier > 0)
            }
            _ => return,
        },
        JPath::Predicate(e) => (JPath::Predicate(combine(e, true, k)), true),
    };
    let text = refpath::render(&new_path, &refpath::PLAIN, rng);
    let enc = refcodec::encode(doc);
    let info = || format!("path={:?} doc={} ; the filter is evaluated for {} item", text, doc.show(), if evaluated { "at least one" } else { "no" });
    ctx.count(if evaluated { "arith.evaluated" } else { "arith.never-evaluated" });
    let mode = rng.below(4);
    match select(text.as_bytes(), &enc, mode) {
        Sel::ParseErr => note_parse_reject(ctx, &text),
        Sel::Panic(p) => ctx.panic_violation("select(arithmetic)", &p, &info),
        Sel::Err(e) => {
            if !evaluated {
                ctx.violation("select(arithmetic)/err-without-evaluation", || format!("Err({}) ; {}", e, info()));
            }
        }
        Sel::Ok(got) => {
            if evaluated {
                ctx.violation("select(arithmetic)/ok-where-error-is-due", || format!("{} ; {}", show_sel(&got), info()));
            } else if !got.data.is_empty() && mode < 2 {
                ctx.violation("select(arithmetic)/items-without-evaluation", || format!("{} ; {}", show_sel(&got), info()));
            }
        }
    }
    if matches!(new_path, JPath::Steps(_)) {
        match exists(text.as_bytes(), &enc) {
            Err(p) => ctx.panic_violation("exists(arithmetic)", &p, &info),
            Ok(Some(Ok(v))) => {
                if evaluated {
                    ctx.violation("exists(arithmetic)/ok-where-error-is-due", || format!("exists={} ; {}", v, info()));
                }
            }
            _ => {}
        }
    } else {
        match predicate_match(text.as_bytes(), &enc) {
            Err(p) => ctx.panic_violation("predicate_match(arithmetic)", &p, &info),
            Ok(Some(Ok(v))) => ctx.violation("predicate_match(arithmetic)/ok-where-error-is-due", || format!("predicate_match={} ; {}", v, info())),
            _ => {}
        }
    }
}

pub fn gen_doc(rng: &mut Rng, i: u64) -> Tree {
    if i % 3001 == 11 {
        return gen::big_doc(rng, i % 2 == 0);
    }
    match i % 16 {
        0 => gen::scalar(rng, false),
        1 => Tree::Arr(vec![]),
        2 => Tree::Obj(vec![]),
        3 | 4 => gen::doc(rng, &gen::DocCfg { max_depth: 4, max_fan: 4, nonfinite: false, container_p: 6 }),
        5 | 6 => {
            // array of similar objects (the classic "store.book[*]" shape)
            let n = rng.below(5) + 1;
            let keys = ["a", "b", "price", "k1"];
            let mut items = Vec::new();
            for _ in 0..n {
                let mut members = Vec::new();
                for k in keys.iter() {
                    if rng.chance(3, 4) {
                        let v = if rng.chance(1, 4) { gen::doc(rng, &gen::DOC_SMALL) } else { gen::scalar(rng, false) };
                        members.push((k.to_string(), v));
                    }
                }
                items.push(Tree::obj_from(members));
            }
            Tree::Obj(vec![("book".into(), Tree::Arr(items)), ("limit".into(), gen::scalar(rng, false))])
        }
        _ => gen::doc(rng, &gen::DocCfg { max_depth: 4, max_fan: 6, nonfinite: false, container_p: 5 }),
    }
}

pub fn run(ctx: &mut Ctx) {
    let n = if ctx.miri { ctx.miri_cases(25) } else { ctx.budget(500_000, 10_000_000) };
    let cfg = PathCfg { max_steps: 4, filters: true, big_indices: false };
    let mon = super::routes::Monitor::new(super::routes::PATHS);
    for i in 0..n {
        if !ctx.next_case() {
            return;
        }
        let mut rng = ctx.rng.fork();
        let doc = gen_doc(&mut rng, i);
        let pg = PathGen::new(&doc);
        for round in 0..3 {
            let path = if rng.chance(5, 6) { pg.guided_path(&mut rng, &cfg, &doc) } else { pg.path(&mut rng, &cfg) };
            let style = if rng.chance(1, 4) { refpath::RStyle { spacing: rng.bool(), kwcase: false, quoting: true, esc: true } } else { refpath::PLAIN };
            let text = refpath::render(&path, &style, &mut rng);
            check(ctx, &doc, &path, &text);
            let small = doc.nodes() < 3000;
            if round == 0 && small && !ctx.miri {
                arith_is_reported(ctx, &doc, &path, &mut rng);
            }
            if round == 0 && small && matches!(path, JPath::Steps(_)) && (!ctx.miri || i % 4 == 0) {
                // the same steps written without the leading `$` select the same items
                let plain = refpath::render(&path, &refpath::PLAIN, &mut rng);
                let rootless = plain.strip_prefix("$.").filter(|r| r.starts_with(|c: char| c.is_ascii_alphabetic())).or_else(|| plain.strip_prefix('$').filter(|r| r.starts_with('[') || r.starts_with(':')));
                if let Some(r) = rootless {
                    let first: String = r.chars().take_while(|c| c.is_ascii_alphanumeric() || *c == '_').collect::<String>().to_ascii_lowercase();
                    if !r.is_empty() && !["true", "false", "null", "last", "exists", "to", "nan", "inf", "infinity"].contains(&first.as_str()) {
                        ctx.count("rootless spellings");
                        check(ctx, &doc, &path, r);
                    }
                }
            }
            if round == 2 && small && i % 3 == 0 && !refpath::has_arith(&path) && !ctx.miri {
                // one Selector object for several documents in turn
                let enc = refcodec::encode(&doc);
                let other = refcodec::encode(&gen::derive(&doc, &mut rng));
                selector_reuse(ctx, &enc, &other, &text, &|| format!("path={:?} doc={}", text, doc.show()));
                if let Some(o2) = same_len_other_root(&enc, &doc) {
                    selector_reuse(ctx, &enc, &o2, &text, &|| format!("path={:?} doc={}", text, doc.show()));
                }
            }
            if round == 1 && i % (if ctx.miri { 8 } else { 2 }) == 0 && doc.nodes() < 300 && !matches!(refpath::eval(&path, &doc), Outcome::Unspecified) {
                // the same selection on the text of the document and on reused buffers
                let plain = refpath::render(&path, &refpath::PLAIN, &mut rng);
                let args = super::routes::path_args(&doc, plain.clone(), plain, &mut rng);
                mon.check(ctx, &doc, &doc, &args, &mut rng);
            }
            ctx.sample(|| format!("{} on {}", text, doc.show()));
        }
        if i % 41 == 3 && !ctx.miri {
            // wide documents: first, last and middle members / elements by name and by index
            let w = gen::wide_doc(&mut rng);
            let mut paths: Vec<JPath> = Vec::new();
            match &w {
                Tree::Obj(v) => {
                    for k in [0, v.len() / 2, v.len() - 2, v.len() - 1] {
                        for st in [refpath::NameStyle::Dot, refpath::NameStyle::Bracket, refpath::NameStyle::Colon] {
                            paths.push(JPath::Steps(vec![refpath::Step::Name(v[k].0.clone(), st)]));
                        }
                    }
                    paths.push(JPath::Steps(vec![refpath::Step::Name("k999".into(), refpath::NameStyle::Dot)]));
                }
                Tree::Arr(v) => {
                    let n = v.len() as i32;
                    for ix in [refpath::Idx::I(0), refpath::Idx::I(n - 1), refpath::Idx::I(n), refpath::Idx::Last(0), refpath::Idx::Last(-(n - 1)), refpath::Idx::Last(-n)] {
                        paths.push(JPath::Steps(vec![refpath::Step::Indices(vec![refpath::AIdx::One(ix)])]));
                    }
                    paths.push(JPath::Steps(vec![refpath::Step::Indices(vec![refpath::AIdx::Range(refpath::Idx::I(n - 3), refpath::Idx::Last(0))])]));
                    paths.push(JPath::Steps(vec![refpath::Step::BracketWild, refpath::Step::Name("id".into(), refpath::NameStyle::Dot)]));
                }
                _ => {}
            }
            let wg = PathGen::new(&w);
            for _ in 0..3 {
                paths.push(wg.guided_path(&mut rng, &cfg, &w));
            }
            for p in paths {
                let text = refpath::render(&p, &refpath::PLAIN, &mut rng);
                check(ctx, &w, &p, &text);
            }
        }
        if i % 4 == 0 {
            let a = *rng.pick(ARITH);
            totality(ctx, &doc, a);
            totality(ctx, &Tree::Obj(vec![("a".into(), doc.clone())]), a);
        }
    }
}
