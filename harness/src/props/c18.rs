//! C18 — numbers keep their exact value through the codec and are ordered by that value.

use crate::gen;
use crate::monitor::{guard, Ctx, Tier};
use crate::refcodec;
use crate::refnum;
use crate::refops;
use crate::tree::{hex, Num, Tree};
use jsonb::Number;
use std::cmp::Ordering;

fn codec_one(ctx: &mut Ctx, n: &Num, fast: bool) {
    let lib = n.to_lib();
    let mut buf: Vec<u8> = Vec::with_capacity(9);
    let r = if fast {
        // hot loop for the exhaustive sweep: no catch_unwind per value
        Ok(lib.compact_encode(&mut buf))
    } else {
        guard(|| lib.compact_encode(&mut buf))
    };
    let info = || format!("number={}", n.show());
    match r {
        Err(p) => {
            ctx.panic_violation("Number::compact_encode", &p, &info);
            return;
        }
        Ok(Err(e)) => {
            ctx.violation("compact_encode/err", || format!("{:?} ; {}", e, info()));
            return;
        }
        Ok(Ok(len)) => {
            let w = refnum::shortest_width(n);
            if len != buf.len() || len != w {
                ctx.violation("compact_encode/width", || format!("returned {} wrote {} shortest {} bytes={} ; {}", len, buf.len(), w, hex(&buf), info()));
                return;
            }
        }
    }
    if !fast {
        let mut exp = Vec::new();
        refcodec::encode_num(n, &mut exp);
        if exp != buf {
            ctx.violation("compact_encode/layout", || format!("got {} expected {} ; {}", hex(&buf), hex(&exp), info()));
            return;
        }
    }
    if !fast {
        // the same number through a writer that takes a few bytes per call (a socket, a
        // chunked sink): the bytes that arrive and the count reported are the same
        struct Dribble(Vec<u8>, usize);
        impl std::io::Write for Dribble {
            fn write(&mut self, b: &[u8]) -> std::io::Result<usize> {
                let k = b.len().min(self.1);
                self.0.extend_from_slice(&b[..k]);
                Ok(k)
            }
            fn flush(&mut self) -> std::io::Result<()> {
                Ok(())
            }
        }
        for chunk in [1usize, 3, 8] {
            let mut w = Dribble(Vec::new(), chunk);
            match guard(|| lib.compact_encode(&mut w).map_err(|e| format!("{:?}", e))) {
                Err(p) => ctx.panic_violation("Number::compact_encode(short writes)", &p, &info),
                Ok(r) => {
                    if r != Ok(buf.len()) || w.0 != buf {
                        ctx.violation("compact_encode/short-writes", || format!("a writer taking {} byte(s) per call received {} and was told {:?}; a Vec receives {} ; {}", chunk, hex(&w.0), r, hex(&buf), info()));
                    }
                }
            }
        }
        // a sink with no room left reports an error instead of a count
        let mut none = [0u8; 0];
        let mut cur: &mut [u8] = &mut none;
        if let Ok(Ok(k)) = guard(|| lib.compact_encode(&mut cur).map_err(|e| format!("{:?}", e))) {
            ctx.violation("compact_encode/ok-into-full-sink", || format!("reported {} bytes written into a sink without room ; {}", k, info()));
        }
    }
    let d = if fast { Ok(Number::decode(&buf)) } else { guard(|| Number::decode(&buf)) };
    match d {
        Err(p) => ctx.panic_violation("Number::decode", &p, &info),
        Ok(Err(e)) => ctx.violation("decode/rejects-valid", || format!("{:?} bytes={} ; {}", e, hex(&buf), info())),
        Ok(Ok(back)) => {
            let b = Num::from_lib(&back);
            if !b.same_encoding(n) {
                ctx.violation("decode/value-differs", || format!("decoded {} bytes={} ; {}", b.show(), hex(&buf), info()));
            }
        }
    }
}

fn views_one(ctx: &mut Ctx, n: &Num) {
    let lib = n.to_lib();
    let info = || format!("number={}", n.show());
    let (i, u, f) = match guard(|| (lib.as_i64(), lib.as_u64(), lib.as_f64())) {
        Ok(x) => x,
        Err(p) => {
            ctx.panic_violation("Number::as_*", &p, &info);
            return;
        }
    };
    ctx.count("views");
    // i64/u64 views: exact or absent, never a different value
    if let Some(v) = i {
        if n.int() != Some(v as i128) {
            ctx.violation("as_i64/different-value", || format!("as_i64={} ; {}", v, info()));
        }
    }
    if let Some(v) = u {
        if n.int() != Some(v as i128) {
            ctx.violation("as_u64/different-value", || format!("as_u64={} ; {}", v, info()));
        }
    }
    // an integer that fits must be present (Appendix A: exact-or-None); floats: not judged
    if n.int().is_some() {
        if i != refops::as_i64(n) {
            ctx.violation("as_i64/absent-or-wrong", || format!("as_i64={:?} expected {:?} ; {}", i, refops::as_i64(n), info()));
        }
        if u != refops::as_u64(n) {
            ctx.violation("as_u64/absent-or-wrong", || format!("as_u64={:?} expected {:?} ; {}", u, refops::as_u64(n), info()));
        }
    }
    match f {
        None => ctx.violation("as_f64/absent", || info()),
        Some(x) => {
            let e = refops::as_f64(n);
            let same = x.to_bits() == e.to_bits() || (x.is_nan() && e.is_nan());
            if !same {
                ctx.violation("as_f64/not-nearest", || format!("as_f64={:?} expected {:?} ; {}", x, e, info()));
            }
        }
    }
    // the decimal text of a finite number denotes exactly that number, in its own class
    if n.is_finite() {
        match guard(|| format!("{}", lib)) {
            Err(p) => ctx.panic_violation("Number::fmt", &p, &info),
            Ok(text) => {
                let back = crate::refjson::parse(text.as_bytes(), crate::refjson::Mode::Strict).ok().map(|p| p.tree);
                let want = Tree::Num(*n).text_norm();
                if !matches!(&back, Some(b) if b.same_encoding(&want)) {
                    ctx.violation("Display/denotes-another-number", || format!("printed {:?}, read back as {:?} ; {}", text, back.map(|b| b.show()), info()));
                }
            }
        }
    }
    // the same views through the byte-level casts on a scalar document
    if ctx.case_no % 3 == 0 {
        let doc = refcodec::encode(&Tree::Num(*n));
        let r = guard(|| (jsonb::as_number(&doc), jsonb::as_i64(&doc), jsonb::as_u64(&doc), jsonb::as_f64(&doc), jsonb::is_number(&doc)));
        match r {
            Err(p) => ctx.panic_violation("as_number(bytes)", &p, &info),
            Ok((num, bi, bu, bf, isn)) => {
                ctx.count("byte_casts");
                let okn = matches!(&num, Some(x) if Num::from_lib(x).same_encoding(n));
                if !okn || !isn {
                    ctx.violation("as_number(bytes)/differs", || format!("{:?} ; {}", num, info()));
                }
                if bi != i || bu != u || bf.map(|x| x.to_bits()) != f.map(|x| x.to_bits()) {
                    if !(bf.map(|x| x.is_nan()) == Some(true) && f.map(|x| x.is_nan()) == Some(true) && bi == i && bu == u) {
                        ctx.violation("byte-casts/differ-from-Number-views", || format!("{:?} {:?} {:?} vs {:?} {:?} {:?} ; {}", bi, bu, bf, i, u, f, info()));
                    }
                }
            }
        }
    }
}

/// the byte-level casts on a number written as JSON text: the literal goes through the text
/// parser first (integers that fit stay exact, everything else is the nearest double), and the
/// views must be those of that number
fn text_casts(ctx: &mut Ctx, lit: &str) {
    let info = || format!("JSON text {:?}", lit);
    let n = match crate::refjson::parse(lit.as_bytes(), crate::refjson::Mode::Strict) {
        Ok(p) => match p.tree {
            Tree::Num(n) => n,
            _ => return,
        },
        Err(_) => return,
    };
    ctx.count("text_casts");
    let d = lit.as_bytes();
    let r = guard(|| (jsonb::as_number(d), jsonb::as_i64(d), jsonb::as_u64(d), jsonb::as_f64(d), jsonb::to_i64(d).ok(), jsonb::to_u64(d).ok(), jsonb::to_f64(d).ok(), jsonb::is_i64(d), jsonb::is_u64(d)));
    match r {
        Err(p) => ctx.panic_violation("as_number(text)", &p, &info),
        Ok((num, bi, bu, bf, ti, tu, tf, isi, isu)) => {
            let okn = matches!(&num, Some(x) if Num::from_lib(x).same_encoding(&n));
            if !okn {
                ctx.violation("as_number(text)/differs", || format!("{:?} expected {} ; {}", num, n.show(), info()));
            }
            let (ei, eu, ef) = (refops::as_i64(&n), refops::as_u64(&n), refops::as_f64(&n));
            if bi != ei || ti != ei || isi != ei.is_some() {
                ctx.violation("text-casts/i64-view", || format!("as_i64={:?} to_i64={:?} is_i64={} expected {:?} ; {}", bi, ti, isi, ei, info()));
            }
            if bu != eu || tu != eu || isu != eu.is_some() {
                ctx.violation("text-casts/u64-view", || format!("as_u64={:?} to_u64={:?} is_u64={} expected {:?} ; {}", bu, tu, isu, eu, info()));
            }
            if bf.map(|x| x.to_bits()) != Some(ef.to_bits()) || tf.map(|x| x.to_bits()) != Some(ef.to_bits()) {
                ctx.violation("text-casts/f64-view", || format!("as_f64={:?} to_f64={:?} expected {:?} ; {}", bf, tf, ef, info()));
            }
        }
    }
}

/// the integer casts applied to a JSONB *string*: whatever syntax the cast admits, a value it
/// hands back must be the number the string denotes, exactly
fn string_casts(ctx: &mut Ctx, s: &str) {
    let info = || format!("JSONB string {:?}", s);
    let doc = refcodec::encode(&Tree::Str(s.to_string()));
    ctx.count("string_casts");
    let denotes: Option<Num> = {
        let body = s.strip_prefix('+').unwrap_or(s);
        match crate::refjson::parse(body.as_bytes(), crate::refjson::Mode::Strict) {
            Ok(p) => match p.tree {
                Tree::Num(n) if p.exact || n.int().is_some() => Some(n),
                Tree::Num(n) => Some(n),
                _ => None,
            },
            Err(_) => {
                // leading zeros are fine for an integer cast ("007")
                let digits = body.strip_prefix('-').unwrap_or(body);
                if !digits.is_empty() && digits.len() < 30 && digits.bytes().all(|b| b.is_ascii_digit()) {
                    digits.parse::<i128>().ok().and_then(|v| {
                        let v = if body.starts_with('-') { -v } else { v };
                        if v >= i64::MIN as i128 && v <= i64::MAX as i128 {
                            Some(Num::I(v as i64))
                        } else if v >= 0 && v <= u64::MAX as i128 {
                            Some(Num::U(v as u64))
                        } else {
                            None
                        }
                    })
                } else {
                    None
                }
            }
        }
    };
    match guard(|| (jsonb::to_i64(&doc).ok(), jsonb::to_u64(&doc).ok(), jsonb::as_i64(&doc), jsonb::as_u64(&doc), jsonb::as_f64(&doc))) {
        Err(p) => ctx.panic_violation("to_i64(string)", &p, &info),
        Ok((ti, tu, ai, au, af)) => {
            if ai.is_some() || au.is_some() || af.is_some() {
                ctx.violation("string-casts/as-view-of-a-string", || format!("as_i64={:?} as_u64={:?} as_f64={:?} ; {}", ai, au, af, info()));
            }
            if let Some(v) = ti {
                let same = matches!(&denotes, Some(n) if refnum::cmp(n, &Num::I(v)) == Ordering::Equal);
                if !same {
                    ctx.violation("string-casts/to_i64-different-value", || format!("to_i64={} but the string denotes {:?} ; {}", v, denotes.map(|n| n.show()), info()));
                }
            }
            if let Some(v) = tu {
                let same = matches!(&denotes, Some(n) if refnum::cmp(n, &Num::U(v)) == Ordering::Equal);
                if !same {
                    ctx.violation("string-casts/to_u64-different-value", || format!("to_u64={} but the string denotes {:?} ; {}", v, denotes.map(|n| n.show()), info()));
                }
            }
        }
    }
}

fn literal(rng: &mut crate::prng::Rng) -> String {
    let bases: [i128; 9] = [i64::MIN as i128, i64::MAX as i128, u64::MAX as i128, 0, 1_000_000_000_000_000_000, 10_000_000_000_000_000_000, -10_000_000_000_000_000_000, 1 << 53, -(1 << 53)];
    match rng.below(6) {
        0 | 1 => format!("{}", *rng.pick(&bases) + rng.range(-3, 3) as i128),
        2 => {
            // 17..21 random digits, either sign
            let n = 17 + rng.below(5);
            let mut s = String::new();
            if rng.bool() {
                s.push('-');
            }
            s.push((b'1' + rng.below(9) as u8) as char);
            for _ in 1..n {
                s.push((b'0' + rng.below(10) as u8) as char);
            }
            s
        }
        3 => format!("{}{}", *rng.pick(&bases) + rng.range(-3, 3) as i128, *rng.pick(&[".0", "e0", "E0", ".5", "e1", "e-1", ".00"])),
        4 => format!("{}e{}", rng.range(-20, 20), rng.range(0, 25)),
        _ => {
            let st = crate::refjson::Style { ws: 0, esc: 0, numvar: true };
            String::from_utf8(crate::refjson::to_text(&Tree::Num(gen::num(rng, false)), &st, rng, false)).unwrap()
        }
    }
}

fn order_pair(ctx: &mut Ctx, a: &Num, b: &Num) {
    let (la, lb) = (a.to_lib(), b.to_lib());
    let info = || format!("a={} b={}", a.show(), b.show());
    let r = guard(|| (la.cmp(&lb), lb.cmp(&la), la == lb, la.partial_cmp(&lb)));
    ctx.count("order.pairs");
    ctx.evals += 1;
    match r {
        Err(p) => ctx.panic_violation("Number::cmp", &p, &info),
        Ok((ab, ba, eq, pc)) => {
            let e = refnum::cmp(a, b);
            if ab != e {
                let sig = order_sig(a, b);
                ctx.violation(&format!("cmp/wrong-order/{}", sig), || format!("cmp={:?} exact order={:?} ; {}", ab, e, info()));
            }
            if ba != ab.reverse() {
                ctx.violation("cmp/antisymmetry", || format!("cmp(a,b)={:?} cmp(b,a)={:?} ; {}", ab, ba, info()));
            }
            // the reference-typed impls (Number vs &Number) must agree as well
            let refs_ok = guard(|| ((la == &lb) == eq) && ((&la == lb) == eq) && (la.partial_cmp(&&lb) == pc) && ((&la).partial_cmp(&lb) == pc)).unwrap_or(false);
            if !refs_ok {
                ctx.violation("cmp/ref-impls-inconsistent", || info());
            }
            if eq != (ab == Ordering::Equal) || pc != Some(ab) {
                ctx.violation("cmp/eq-inconsistent", || format!("eq={} cmp={:?} partial={:?} ; {}", eq, ab, pc, info()));
            }
        }
    }
}

/// the same order and equality as the byte-level functions see them: numbers inside documents,
/// not in last position (so that a wrong payload width shifts what follows), and inside arrays
/// of hundreds of elements (beyond what a linear scan is kept for)
fn order_in_documents(ctx: &mut Ctx, a: &Num, b: &Num, wide: bool) {
    let info = || format!("a={} b={}", a.show(), b.show());
    let e = refnum::cmp(a, b);
    ctx.count("order.in-documents");
    let tail = [Tree::Str("tail".into()), Tree::Num(Num::U(300)), Tree::Arr(vec![Tree::Num(Num::I(-1))])];
    let mk = |n: &Num| {
        let mut v = vec![Tree::Num(*n)];
        v.extend(tail.iter().cloned());
        v
    };
    let (da, db) = (refcodec::encode(&Tree::Arr(mk(a))), refcodec::encode(&Tree::Arr(mk(b))));
    let (oa, ob) = (refcodec::encode(&Tree::Obj(vec![("a".into(), Tree::Num(*a)), ("b".into(), Tree::Num(Num::U(7)))])), refcodec::encode(&Tree::Obj(vec![("a".into(), Tree::Num(*b)), ("b".into(), Tree::Num(Num::U(7)))])));
    match guard(|| (jsonb::compare(&da, &db).map_err(|e| format!("{:?}", e)), jsonb::compare(&oa, &ob).map_err(|e| format!("{:?}", e)), jsonb::contains(&da, &db), jsonb::contains(&oa, &ob))) {
        Err(p) => ctx.panic_violation("compare/contains(numbers in documents)", &p, &info),
        Ok((ca, co, na, no)) => {
            if ca != Ok(e) || co != Ok(e) {
                ctx.violation(&format!("compare(documents)/wrong-order/{}", order_sig(a, b)), || format!("arrays: {:?} objects: {:?} exact order of the numbers: {:?} (the rest is equal) ; {}", ca, co, e, info()));
            }
            let eq = e == Ordering::Equal;
            // (the array also holds 300, which a second number equal to 300 matches)
            let eq_arr = eq || refnum::eq(b, &Num::U(300));
            if na != eq_arr || no != eq {
                ctx.violation(&format!("contains(documents)/wrong/{}", order_sig(a, b)), || format!("arrays: {} objects: {} but the numbers are {} ; {}", na, no, if eq { "equal" } else { "different" }, info()));
            }
        }
    }
    if wide {
        let mut left: Vec<Tree> = (0..300).map(|k| Tree::Str(format!("s{}", k))).collect();
        left.insert(150, Tree::Num(*a));
        let (l, r) = (refcodec::encode(&Tree::Arr(left)), refcodec::encode(&Tree::Arr(vec![Tree::Num(*b)])));
        match guard(|| jsonb::contains(&l, &r)) {
            Err(p) => ctx.panic_violation("contains(wide array)", &p, &info),
            Ok(c) => {
                if c != (e == Ordering::Equal) {
                    ctx.violation(&format!("contains(wide array)/wrong/{}", order_sig(a, b)), || format!("contains={} ; {}", c, info()));
                }
            }
        }
    }
}

/// the second number written as a literal in a path filter and compared with the first one in a
/// document: the literal denotes its number exactly (integers up to u64::MAX included) and the
/// comparison is the numeric one
fn order_in_paths(ctx: &mut Ctx, a: &Num, b: &Num) {
    if !b.is_finite() {
        return;
    }
    ctx.count("order.in-paths");
    let lit = String::from_utf8(crate::refjson::compact(&Tree::Num(*b))).unwrap();
    let doc = refcodec::encode(&Tree::Arr(vec![Tree::Num(*a)]));
    let e = refnum::cmp(a, b);
    let item = refcodec::encode(&Tree::Num(*a));
    for (op, holds) in [("==", e == Ordering::Equal), ("<", e == Ordering::Less), (">=", e != Ordering::Less), ("!=", e != Ordering::Equal)] {
        for text in [format!("$[*] ? (@ {} {})", op, lit), format!("$[0] {} {}", op, lit)] {
            let info = || format!("path={:?} a={} b={}", text, a.show(), b.show());
            match super::paths::select(text.as_bytes(), &doc, 0) {
                super::paths::Sel::Panic(p) => ctx.panic_violation("select(number literal)", &p, &info),
                super::paths::Sel::ParseErr => ctx.violation("select(number literal)/literal-rejected", || info()),
                super::paths::Sel::Err(x) => ctx.violation("select(number literal)/err", || format!("{} ; {}", x, info())),
                super::paths::Sel::Ok(s) => {
                    let want: Vec<u8> = if text.starts_with("$[*]") {
                        if holds { item.clone() } else { Vec::new() }
                    } else {
                        refcodec::encode(&Tree::Bool(holds))
                    };
                    if s.data != want {
                        ctx.violation(&format!("select(number literal)/wrong/{}", order_sig(a, b)), || format!("got {} expected {} ; exact order of a and b: {:?} ; {}", hex(&s.data), hex(&want), e, info()));
                    }
                }
            }
        }
    }
}

fn order_sig(a: &Num, b: &Num) -> &'static str {
    match (a.int().is_some(), b.int().is_some()) {
        (true, true) => "int-int",
        (false, false) => "float-float",
        _ => "int-float",
    }
}

/// sort a batch with an independent merge sort driven by the library's cmp and verify all pairs
fn order_batch(ctx: &mut Ctx, nums: &[Num]) {
    let libs: Vec<Number> = nums.iter().map(|n| n.to_lib()).collect();
    let mut idx: Vec<usize> = (0..nums.len()).collect();
    let sorted = guard(|| {
        merge_sort(&mut idx, &|i, j| libs[*i].cmp(&libs[*j]));
        idx.clone()
    });
    let sorted = match sorted {
        Ok(s) => s,
        Err(p) => {
            ctx.panic_violation("Number::cmp(batch)", &p, &|| "batch".into());
            return;
        }
    };
    ctx.count("order.batches");
    for x in 0..sorted.len() {
        for y in x + 1..sorted.len() {
            let (a, b) = (&nums[sorted[x]], &nums[sorted[y]]);
            let o = libs[sorted[x]].cmp(&libs[sorted[y]]);
            if o == Ordering::Greater {
                ctx.violation("cmp/not-transitive(sorted batch has inverted pair)", || {
                    format!("after sorting with cmp, position {} > position {}: a={} b={}", x, y, a.show(), b.show())
                });
                return;
            }
        }
    }
}

pub fn merge_sort<T: Clone>(v: &mut Vec<T>, cmp: &dyn Fn(&T, &T) -> Ordering) {
    if v.len() <= 1 {
        return;
    }
    let mid = v.len() / 2;
    let mut l = v[..mid].to_vec();
    let mut r = v[mid..].to_vec();
    merge_sort(&mut l, cmp);
    merge_sort(&mut r, cmp);
    let (mut i, mut j, mut k) = (0, 0, 0);
    while i < l.len() && j < r.len() {
        if cmp(&l[i], &r[j]) != Ordering::Greater {
            v[k] = l[i].clone();
            i += 1;
        } else {
            v[k] = r[j].clone();
            j += 1;
        }
        k += 1;
    }
    while i < l.len() {
        v[k] = l[i].clone();
        i += 1;
        k += 1;
    }
    while j < r.len() {
        v[k] = r[j].clone();
        j += 1;
        k += 1;
    }
}

fn malformed(ctx: &mut Ctx) {
    // every tag 0..=255 x payload length 0..=10
    for tag in 0u16..=255 {
        for len in 0usize..=10 {
            let mut b = vec![tag as u8];
            for k in 0..len {
                b.push((k as u8).wrapping_mul(37).wrapping_add(tag as u8));
            }
            let info = || format!("bytes={}", hex(&b));
            ctx.count("malformed.inputs");
            match guard(|| Number::decode(&b)) {
                Err(p) => ctx.panic_violation("Number::decode(malformed)", &p, &info),
                Ok(r) => {
                    let known_tag = matches!(tag as u8, 0x00 | 0x10 | 0x20 | 0x30 | 0x40 | 0x50 | 0x60);
                    let width_ok = match tag as u8 {
                        0x40 | 0x50 => matches!(len, 1 | 2 | 4 | 8),
                        0x60 => len == 8,
                        _ => true, // trailing bytes after 1-byte tags: not judged
                    };
                    if (!known_tag || !width_ok) && r.is_ok() {
                        ctx.violation("decode/accepts-malformed", || format!("decoded {:?} ; {}", r, info()));
                    }
                }
            }
        }
    }
    // empty input
    ctx.count("malformed.inputs");
    match guard(|| Number::decode(&[])) {
        Err(p) => ctx.panic_violation("Number::decode(empty)", &p, &|| "bytes=<empty>".into()),
        Ok(r) => {
            if r.is_ok() {
                ctx.violation("decode/accepts-empty", || format!("{:?}", r));
            }
        }
    }
}

pub fn run(ctx: &mut Ctx) {
    if ctx.shard == 0 {
        ctx.next_case();
        malformed(ctx);
    }
    // 32-bit sweep: i32 as Int64, u32 as UInt64, f32 bit patterns widened to Float64.
    // thorough: exhaustive 3 * 2^32; quick: stride
    let stride: u64 = match (ctx.tier, ctx.miri) {
        (_, true) => 1 << 26,
        (Tier::Quick, _) => 1 << 6,
        (Tier::Thorough, _) => 1,
    };
    let stride = if ctx.scale < 1.0 && stride == 1 { (1.0 / ctx.scale) as u64 } else { stride };
    let total: u64 = 1 << 32;
    let per = total / ctx.nshards as u64;
    let lo = per * ctx.shard as u64;
    let hi = if ctx.shard == ctx.nshards - 1 { total } else { lo + per };
    let off = if stride > 1 { ctx.rng.next_u64() % stride } else { 0 };
    let mut x = lo + off;
    let mut swept: u64 = 0;
    ctx.next_case();
    while x < hi {
        let u = x as u32;
        codec_one(ctx, &Num::I(u as i32 as i64), true);
        codec_one(ctx, &Num::U(u as u64), true);
        codec_one(ctx, &Num::f(f32::from_bits(u) as f64), true);
        swept += 3;
        x += stride;
    }
    ctx.count_n("sweep32.roundtrips", swept);
    ctx.evals += swept;
    ctx.exhaustive.insert("sweep32(all i32 as Int64, u32 as UInt64, f32 patterns as Float64)".into(), stride == 1);
    ctx.distinct(crate::prng::mix(lo, hi));

    // boundary pool + random 64-bit
    let mut pool: Vec<Num> = Vec::new();
    for v in gen::int_pool() {
        if v >= 0 {
            pool.push(Num::U(v as u64));
        }
        if v <= i64::MAX as i128 {
            pool.push(Num::I(v as i64));
        }
    }
    for f in gen::float_pool() {
        pool.push(Num::f(f));
    }
    for f in [f64::NAN, f64::INFINITY, f64::NEG_INFINITY] {
        pool.push(Num::f(f));
    }
    // NaNs of other bit patterns (sign set, payload set): all are the one NaN
    for bits in [0xFFF8_0000_0000_0000u64, 0x7FF8_0000_0000_0001, 0x7FF0_0000_0000_0001, 0xFFFF_FFFF_FFFF_FFFF] {
        pool.push(Num::F(bits));
    }
    // neighbours of 2^53..2^64 as floats and ints
    for p in 53..=64u32 {
        let base = crate::refnum::pow2(p);
        for d in [-1i64, 0, 1] {
            let fb = (base.to_bits() as i64 + d) as u64;
            pool.push(Num::F(fb));
            let iv = (1u128 << p) as i128 + d as i128 * (1i128 << (p - 53));
            if iv <= u64::MAX as i128 {
                pool.push(Num::U(iv as u64));
                pool.push(Num::U((iv + 1).min(u64::MAX as i128) as u64));
                if iv <= i64::MAX as i128 {
                    pool.push(Num::I(-(iv as i64)));
                    pool.push(Num::I(-(iv as i64) + 1));
                }
            }
        }
    }
    if ctx.shard == 0 {
        for n in pool.clone().iter() {
            ctx.next_case();
            codec_one(ctx, n, false);
            views_one(ctx, n);
            ctx.distinct(crate::prng::hash_bytes(n.show().as_bytes()));
        }
        // all pool pairs
        let lim = if ctx.miri { 40 } else { pool.len() };
        for (x, a) in pool.iter().take(lim).enumerate() {
            for (y, b) in pool.iter().take(lim).enumerate() {
                order_pair(ctx, a, b);
                if (x + y) % 5 == 0 && !ctx.miri {
                    order_in_documents(ctx, a, b, (x + y) % 35 == 0);
                }
                if (x + y) % 5 == 1 && !ctx.miri {
                    order_in_paths(ctx, a, b);
                }
            }
        }
        ctx.exhaustive.insert("pool_pairs(boundary pool x boundary pool)".into(), !ctx.miri);
    }
    let mon = super::routes::Monitor::new(super::routes::NUMBERS);
    let n = ctx.budget(5_000_000, 50_000_000);
    for i in 0..n {
        if !ctx.next_case() {
            return;
        }
        let mut rng = ctx.rng.fork();
        let a = gen::num(&mut rng, true);
        codec_one(ctx, &a, false);
        views_one(ctx, &a);
        // pair: relative of a (same double image, neighbour) or pool member or random
        let b = match rng.below(5) {
            0 => *rng.pick(&pool),
            1 => match a {
                Num::I(v) => Num::f(v as f64),
                Num::U(v) => Num::f(v as f64),
                Num::F(bits) => {
                    let f = f64::from_bits(bits);
                    if f.is_finite() && f.abs() < 1.8e19 {
                        if f >= 0.0 { Num::U(f as u64) } else { Num::I(f.max(-9.2e18) as i64) }
                    } else {
                        Num::U(u64::MAX)
                    }
                }
            },
            2 => match a {
                Num::I(v) => Num::I(v.wrapping_add(rng.range(-2, 2))),
                Num::U(v) => Num::U(v.wrapping_add(rng.range(-2, 2) as u64)),
                Num::F(bits) => Num::F(bits.wrapping_add(rng.range(-2, 2) as u64)),
            },
            _ => gen::num(&mut rng, true),
        };
        order_pair(ctx, &a, &b);
        if i % 8 == 5 {
            order_in_documents(ctx, &a, &b, i % 64 == 5);
        }
        if i % 8 == 6 {
            order_in_paths(ctx, &a, &b);
        }
        if i % 4 == 0 {
            let lit = literal(&mut rng);
            text_casts(ctx, &lit);
            let st = match rng.below(4) {
                0 => gen::string(&mut rng),
                1 => format!("{}{}", if rng.bool() { "+" } else { "" }, lit),
                _ => lit.clone(),
            };
            string_casts(ctx, &st);
        }
        if i % 16 == 1 && !ctx.miri {
            let t = Tree::Num(a);
            let args = super::routes::plain_args(&t, &mut rng);
            mon.check(ctx, &t, &t, &args, &mut rng);
        }
        if i % 64 == 0 {
            // batch of 48: a, relatives and pool members
            let mut batch = vec![a, b];
            while batch.len() < 48 {
                let base = *rng.pick(&batch);
                let x = match rng.below(4) {
                    0 => *rng.pick(&pool),
                    1 => gen::num(&mut rng, true),
                    _ => match base {
                        Num::I(v) => *rng.pick(&[Num::f(v as f64), Num::I(v.wrapping_add(1)), Num::I(v.wrapping_sub(1))]),
                        Num::U(v) => *rng.pick(&[Num::f(v as f64), Num::U(v.wrapping_add(1)), Num::U(v.wrapping_sub(1))]),
                        Num::F(bits) => {
                            let f = f64::from_bits(bits);
                            if f.is_finite() && f.abs() < 1.8e19 && f >= 0.0 {
                                *rng.pick(&[Num::U(f as u64), Num::U((f as u64).wrapping_add(1)), Num::F(bits.wrapping_add(1))])
                            } else {
                                Num::F(bits.wrapping_sub(1))
                            }
                        }
                    },
                };
                batch.push(x);
            }
            order_batch(ctx, &batch);
        }
        ctx.distinct(crate::prng::hash_bytes(format!("{}{}", a.show(), b.show()).as_bytes()));
        ctx.sample(|| format!("{} vs {} -> {:?}", a.show(), b.show(), refnum::cmp(&a, &b)));
    }
}
