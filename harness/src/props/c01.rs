//! C01 — encoding round-trips every value and is exactly the documented layout.

use crate::gen;
use crate::monitor::{append_only, guard, Ctx};
use crate::refcodec;
use crate::tree::{hex, Num, Tree};

pub fn check_one(ctx: &mut Ctx, t: &Tree) {
    let info = || format!("value={}", t.show());
    let v = t.to_value();
    let bytes = match guard(|| v.to_vec()) {
        Ok(b) => b,
        Err(p) => {
            ctx.panic_violation("Value::to_vec", &p, &info);
            return;
        }
    };
    ctx.count("Value::to_vec");
    let expect = refcodec::encode(t);
    if bytes != expect {
        ctx.violation("to_vec/layout", || {
            format!("encoding differs from the README layout: got={} expected={} ; {}", hex(&bytes), hex(&expect), info())
        });
        return;
    }
    // the independent strict decoder must read the library's bytes back to the same value
    match refcodec::strict_decode(&bytes) {
        Ok(d) if d.same_encoding(t) => {}
        Ok(d) => ctx.violation("to_vec/strict-decode-differs", || format!("strict decode gives {} ; {}", d.show(), info())),
        Err(e) => ctx.violation("to_vec/strict-decode-fails", || format!("{}: bytes={} ; {}", e, hex(&bytes), info())),
    }
    // library decoders
    for (name, which) in [("from_slice", 0), ("parse_jsonb", 1)] {
        let r = guard(|| {
            let r = if which == 0 { jsonb::from_slice(&bytes) } else { jsonb::parse_jsonb(&bytes) };
            r.map(|v2| (Tree::from_value(&v2), v2.to_vec()))
        });
        ctx.count(name);
        match r {
            Err(p) => ctx.panic_violation(name, &p, &info),
            Ok(Err(e)) => ctx.violation(&format!("{}/rejects-valid", name), || format!("{} rejected a valid encoding: {:?} bytes={} ; {}", name, e, hex(&bytes), info())),
            Ok(Ok((Err(e), _))) => ctx.violation(&format!("{}/bad-string", name), || format!("{} ; {}", e, info())),
            Ok(Ok((Ok(t2), re))) => {
                if !t2.same_encoding(t) {
                    ctx.violation(&format!("{}/value-differs", name), || format!("decoded {} ; {}", t2.show(), info()));
                }
                if re != bytes {
                    ctx.violation(&format!("{}/reencode-differs", name), || format!("re-encoded {} original {} ; {}", hex(&re), hex(&bytes), info()));
                }
            }
        }
    }
    // write_to_vec appends (C17 monitor active in every workload)
    if ctx.case_no % 4 == 0 {
        let prefill = [0xAAu8, 0x40, 0x80, 0x20, 0x00, 0xFF, 0x01];
        let f = |buf: &mut Vec<u8>| -> Result<(), ()> {
            v.write_to_vec(buf);
            Ok(())
        };
        if let Some(Ok(b)) = append_only(ctx, "Value::write_to_vec", &prefill, &f, &info) {
            if b != bytes {
                ctx.violation("write_to_vec/differs-from-to_vec", || info());
            }
        }
    }
    if t.nodes() >= 2 || matches!(t, Tree::Str(s) if !s.is_empty()) || matches!(t, Tree::Num(_)) {
        ctx.distinct(t.hash64());
    }
    ctx.sample(|| format!("{} -> {}", t.show(), hex(&bytes)));
}

/// values built through the conversion impls (`From` for every primitive width, strings,
/// vectors, slices, iterators of elements and of pairs, `LazyValue::from`): the bytes are those of
/// the document the conversions denote
fn api_built(ctx: &mut Ctx, rng: &mut crate::prng::Rng) {
    use jsonb::Value;
    use std::borrow::Cow;
    let bits = match rng.below(4) {
        0 => rng.next_u64(),
        1 => rng.below(300) as u64,
        2 => (rng.below(300) as u64).wrapping_neg(),
        _ => 1u64 << rng.below(64),
    };
    let fl = f64::from_bits(rng.next_u64());
    let s = gen::string(rng);
    let mut cases: Vec<(&'static str, Value<'static>, Tree)> = vec![
        ("From<i8>", Value::from(bits as i8), Tree::Num(Num::I(bits as i8 as i64))),
        ("From<i16>", Value::from(bits as i16), Tree::Num(Num::I(bits as i16 as i64))),
        ("From<i32>", Value::from(bits as i32), Tree::Num(Num::I(bits as i32 as i64))),
        ("From<i64>", Value::from(bits as i64), Tree::Num(Num::I(bits as i64))),
        ("From<isize>", Value::from(bits as isize), Tree::Num(Num::I(bits as isize as i64))),
        ("From<u8>", Value::from(bits as u8), Tree::Num(Num::U(bits as u8 as u64))),
        ("From<u16>", Value::from(bits as u16), Tree::Num(Num::U(bits as u16 as u64))),
        ("From<u32>", Value::from(bits as u32), Tree::Num(Num::U(bits as u32 as u64))),
        ("From<u64>", Value::from(bits), Tree::Num(Num::U(bits))),
        ("From<usize>", Value::from(bits as usize), Tree::Num(Num::U(bits as usize as u64))),
        ("From<f32>", Value::from(f32::from_bits(bits as u32)), Tree::Num(Num::f(f32::from_bits(bits as u32) as f64))),
        ("From<f64>", Value::from(fl), Tree::Num(Num::f(fl))),
        ("From<bool>", Value::from(bits & 1 == 1), Tree::Bool(bits & 1 == 1)),
        ("From<()>", Value::from(()), Tree::Null),
        ("From<String>", Value::from(s.clone()), Tree::Str(s.clone())),
        ("From<Cow<str>>", Value::from(Cow::Owned::<str>(s.clone())), Tree::Str(s.clone())),
        ("From<Vec<T>>", Value::from(vec![bits as i16, 0, -1]), Tree::Arr(vec![Tree::Num(Num::I(bits as i16 as i64)), Tree::Num(Num::I(0)), Tree::Num(Num::I(-1))])),
        ("FromIterator<T>", (0..3u8).map(|k| k as u64 + (bits & 0xff)).collect::<Value>(), Tree::Arr((0..3u64).map(|k| Tree::Num(Num::U(k + (bits & 0xff)))).collect())),
    ];
    // pairs in arbitrary order with a repeated key: sorted, the last one wins
    let keys = [gen::key(rng), gen::key(rng), gen::key(rng)];
    let pairs: Vec<(String, u32)> = vec![(keys[0].clone(), 1), (keys[1].clone(), bits as u32), (keys[2].clone(), 3), (keys[0].clone(), 4)];
    cases.push(("FromIterator<(K,V)>", pairs.iter().cloned().collect::<Value>(), Tree::obj_from(pairs.iter().map(|(k, v)| (k.clone(), Tree::Num(Num::U(*v as u64)))).collect())));
    for (name, v, t) in cases {
        ctx.count("api_built");
        let info = || format!("{} expected {}", name, t.show());
        let expect = refcodec::encode(&t);
        match guard(|| (v.to_vec(), jsonb::LazyValue::from(v.clone()).to_vec())) {
            Err(p) => ctx.panic_violation(name, &p, &info),
            Ok((b, lb)) => {
                if b != expect {
                    ctx.violation("to_vec/layout(api-built)", || format!("got={} expected={} ; {}", hex(&b), hex(&expect), info()));
                }
                if lb != expect {
                    ctx.violation("LazyValue::to_vec/layout(api-built)", || format!("got={} expected={} ; {}", hex(&lb), hex(&expect), info()));
                }
            }
        }
    }
    // a borrowed slice and a borrowed str
    let xs = [bits as u32, 7, 0];
    let sl: &[u32] = &xs;
    let st: &str = &s;
    let got = guard(|| (Value::from(sl).to_vec(), Value::from(st).to_vec()));
    let exp = (refcodec::encode(&Tree::Arr(xs.iter().map(|x| Tree::Num(Num::U(*x as u64))).collect())), refcodec::encode(&Tree::Str(s.clone())));
    match got {
        Err(p) => ctx.panic_violation("From<&[T]>/From<&str>", &p, &|| s.clone()),
        Ok(g) => {
            if g != exp {
                ctx.violation("to_vec/layout(api-built)", || format!("From<&[T]> / From<&str>: got={} {} expected={} {}", hex(&g.0), hex(&g.1), hex(&exp.0), hex(&exp.1)));
            }
        }
    }
}

pub fn run(ctx: &mut Ctx) {
    // 1. small-scope exhaustive enumeration (sharded round-robin)
    let small = gen::enumerate_small(if ctx.miri { 3 } else { 4 });
    ctx.count_n("small_scope.total_docs", 0);
    for (i, t) in small.iter().enumerate() {
        if i % ctx.nshards != ctx.shard {
            continue;
        }
        if !ctx.next_case() {
            return;
        }
        ctx.count("small_scope.docs");
        check_one(ctx, t);
    }
    ctx.exhaustive.insert("small_scope(<=4 nodes, 8 scalars, 3 keys)".into(), !ctx.miri);

    // 2. every pool number as top-level scalar, array element and object value, both encodings
    if ctx.shard == 0 {
        let mut nums: Vec<Num> = Vec::new();
        for v in gen::int_pool() {
            if v >= 0 {
                nums.push(Num::U(v as u64));
            }
            if v <= i64::MAX as i128 {
                nums.push(Num::I(v as i64));
            }
        }
        for f in gen::float_pool() {
            nums.push(Num::f(f));
        }
        for f in [f64::NAN, f64::INFINITY, f64::NEG_INFINITY] {
            nums.push(Num::f(f));
        }
        for (i, n) in nums.iter().enumerate() {
            if !ctx.next_case() {
                return;
            }
            ctx.count("pool_numbers");
            let n2 = nums[(i * 7 + 3) % nums.len()];
            check_one(ctx, &Tree::Num(*n));
            check_one(ctx, &Tree::Arr(vec![Tree::Null, Tree::Num(*n), Tree::Arr(vec![]), Tree::Num(n2), Tree::Bool(true)]));
            check_one(
                ctx,
                &Tree::Obj(vec![
                    ("".into(), Tree::Num(n2)),
                    ("a".into(), Tree::Obj(vec![])),
                    ("é".into(), Tree::Num(*n)),
                    ("é2".into(), Tree::Arr(vec![Tree::Num(*n), Tree::Str("x".into())])),
                ]),
            );
            if ctx.miri && i > 40 {
                break;
            }
        }
    }

    // 2b. one payload beyond 2^24 bytes
    if ctx.shard == 0 && !ctx.miri {
        ctx.next_case();
        ctx.count("huge_payload_docs");
        check_one(ctx, &gen::huge_payload_doc());
    }

    // 2c. strings beyond 2^18 bytes made of 1- and 2-byte characters, at three alignments (a
    // character straddles every power-of-two block boundary in one of them)
    if ctx.shard == 1 % ctx.nshards && !ctx.miri {
        for pre in ["", "x", "xy"] {
            ctx.next_case();
            ctx.count("long_multibyte_strings");
            let mut s = String::with_capacity(300_000);
            s.push_str(pre);
            while s.len() < 290_000 {
                s.push_str("a\u{e9}\u{65e5}");
            }
            check_one(ctx, &Tree::Arr(vec![Tree::Str(s.clone()), Tree::Obj(vec![(s, Tree::Num(Num::U(1)))])]));
        }
    }

    // 3. random documents
    let n = if ctx.miri { ctx.miri_cases(60) } else { ctx.budget(2_000_000, 40_000_000) };
    for i in 0..n {
        if !ctx.next_case() {
            return;
        }
        let mut rng = ctx.rng.fork();
        let t = match i % 10 {
            _ if i % 4001 == 7 && !ctx.miri => gen::big_doc(&mut rng, true),
            0 => gen::doc(&mut rng, &gen::DocCfg { max_depth: 8, max_fan: 3, nonfinite: true, container_p: 7 }),
            1 => gen::doc(&mut rng, &gen::DocCfg { max_depth: 2, max_fan: 12, nonfinite: true, container_p: 3 }),
            2 => {
                // deep chain with a random leaf document
                let leaf = gen::doc(&mut rng, &gen::DOC_SMALL);
                let d = if ctx.miri { 20 } else { 200 };
                gen::deep(rng.below(d) + 1, rng.below(3) as u8, leaf)
            }
            _ => gen::doc(&mut rng, &gen::DOC_DEFAULT),
        };
        ctx.count("random.docs");
        check_one(ctx, &t);
        if i % 8 == 3 {
            api_built(ctx, &mut rng);
        }
        if i % 16 == 5 {
            // sibling objects whose keys are the same bytes cut at different places
            let (o1, o2) = gen::resplit_objects(&mut rng);
            check_one(ctx, &Tree::Arr(vec![o1.clone(), o2.clone(), o1.clone()]));
            check_one(ctx, &Tree::Obj(vec![("p".into(), o1), ("q".into(), o2)]));
        }
    }
}
