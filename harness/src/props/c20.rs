//! C20 — deep nesting and extreme arguments end in a result or an error, never a crash.
//!
//! Stack exhaustion cannot be caught in-process, so every (entry point, shape, depth) cell runs
//! in its own subprocess (`jv cell ...`) on a thread with an explicit 8 MiB stack; the parent
//! observes the exit status. Integer extremes run in-process under checked arithmetic and are
//! compared with the model.

use super::c05::lib_keypath;
use crate::gen::{self, PathCfg, PathGen};
use crate::monitor::{guard, Ctx, Tier};
use crate::refcodec;
use crate::refops::{self, Edit, KP};
use crate::refpath::{self, AIdx, Idx, JPath, Step};
use crate::tree::{hex, Num, Tree};
use std::process::{Command, Stdio};
use std::time::{Duration, Instant};

pub const ENTRIES: &[&str] = &[
    "parse_value",
    "Value::to_vec",
    "from_slice",
    "parse_jsonb",
    "to_string",
    "to_pretty_string",
    "compare",
    "convert_to_comparable",
    "contains",
    "strip_nulls",
    "to_serde_json",
    "get_by_path",
    "get_by_keypath",
    "delete_by_keypath",
    "traverse_check_string",
    "concat",
    "array_values/object_each/object_keys",
    "type_of/array_length/get_by_index/get_by_name",
    "array_distinct/array_insert/object_insert",
    "compare(text,text)",
    "parse_lazy_value/to_value",
    "to_serde_json_object",
    "exists_all_keys/path_exists",
    "parse_json_path(parens)",
    "parse_json_path(nested-filters)",
    "parse_json_path(long)",
];
pub const SHAPES: &[&str] = &["array", "object", "alternating"];
pub const DEPTHS: &[usize] = &[1, 10, 100, 1_000, 10_000, 100_000, 300_000];

/// Depth from which stack exhaustion is a *known* finding on the unchanged tree (first failing
/// depth of the schedule, 8 MiB stack, this compiler, checked release build). A crash below the
/// floor, or in an entry point without a floor, is reported under a different signature.
pub fn known_floor(entry: &str) -> Option<usize> {
    Some(match entry {
        "parse_value" => 10_000,
        "Value::to_vec" => 100_000,
        "from_slice" | "parse_jsonb" => 100_000,
        "to_string" | "to_pretty_string" => 100_000,
        "compare" => 100_000,
        "contains" => 100_000,
        "strip_nulls" => 100_000,
        "to_serde_json" => 10_000,
        "delete_by_keypath" => 100_000,
        "concat" => 100_000,
        "compare(text,text)" => 10_000,
        "parse_lazy_value/to_value" => 10_000,
        "to_serde_json_object" => 10_000,
        "parse_json_path(parens)" => 10_000,
        "parse_json_path(nested-filters)" => 10_000,
        _ => return None,
    })
}

// ------------------------------------------------------------------ input builders (iterative)

fn is_arr(shape: &str, level: usize) -> bool {
    match shape {
        "array" => true,
        "object" => false,
        _ => level % 2 == 0,
    }
}

pub fn deep_text(shape: &str, depth: usize) -> Vec<u8> {
    let mut s = Vec::with_capacity(depth * 8 + 8);
    for l in 0..depth {
        if is_arr(shape, l) {
            s.push(b'[');
        } else {
            s.extend_from_slice(b"{\"a\":");
        }
    }
    s.extend_from_slice(b"1");
    for l in (0..depth).rev() {
        s.push(if is_arr(shape, l) { b']' } else { b'}' });
    }
    s
}

pub fn deep_jsonb(shape: &str, depth: usize, leaf: u8) -> Vec<u8> {
    // lengths from the inside out
    let leaf_payload: [u8; 2] = [0x50, leaf];
    let mut lens = vec![0usize; depth + 1];
    // level `depth` is the innermost container holding the scalar
    for l in (0..depth).rev() {
        let inner = if l + 1 == depth { 2 } else { lens[l + 1] };
        lens[l] = if is_arr(shape, l) { 8 + inner } else { 13 + inner };
    }
    let mut out = Vec::with_capacity(lens[0] + 16);
    if depth == 0 {
        out.extend_from_slice(&[0x20, 0, 0, 0, 0x20, 0, 0, 2]);
        out.extend_from_slice(&leaf_payload);
        return out;
    }
    for l in 0..depth {
        let inner = if l + 1 == depth { 2 } else { lens[l + 1] };
        let entry: u32 = if l + 1 == depth { 0x2000_0000 | 2 } else { 0x5000_0000 | inner as u32 };
        if is_arr(shape, l) {
            out.extend_from_slice(&0x8000_0001u32.to_be_bytes());
            out.extend_from_slice(&entry.to_be_bytes());
        } else {
            out.extend_from_slice(&0x4000_0001u32.to_be_bytes());
            out.extend_from_slice(&0x1000_0001u32.to_be_bytes());
            out.extend_from_slice(&entry.to_be_bytes());
            out.push(b'a');
        }
    }
    out.extend_from_slice(&leaf_payload);
    out
}

fn deep_value(shape: &str, depth: usize) -> jsonb::Value<'static> {
    let mut v = jsonb::Value::Number(jsonb::Number::UInt64(1));
    for l in (0..depth).rev() {
        v = if is_arr(shape, l) {
            jsonb::Value::Array(vec![v])
        } else {
            let mut m = std::collections::BTreeMap::new();
            m.insert("a".to_string(), v);
            jsonb::Value::Object(m)
        };
    }
    v
}

fn deep_path(shape: &str, depth: usize) -> Vec<u8> {
    let mut s = b"$".to_vec();
    for l in 0..depth {
        if is_arr(shape, l) {
            s.extend_from_slice(b"[0]");
        } else {
            s.extend_from_slice(b".a");
        }
    }
    s
}

fn deep_keypath(shape: &str, depth: usize) -> Vec<KP> {
    (0..depth).map(|l| if is_arr(shape, l) { KP::Index(0) } else { KP::Name("a".into()) }).collect()
}

// ------------------------------------------------------------------ the cell (child process)

pub fn cell_main(args: &[String]) {
    let entry = args.first().cloned().unwrap_or_default();
    let shape = args.get(1).cloned().unwrap_or_else(|| "array".into());
    let depth: usize = args.get(2).and_then(|s| s.parse().ok()).unwrap_or(1);
    let h = std::thread::Builder::new()
        .stack_size(8 << 20)
        .spawn(move || {
            let r = std::panic::catch_unwind(|| run_cell(&entry, &shape, depth));
            match r {
                Ok(outcome) => {
                    println!("CELL-DONE {}", outcome);
                    0
                }
                Err(_) => {
                    println!("CELL-PANIC");
                    101
                }
            }
        })
        .unwrap();
    let code = h.join().unwrap_or(102);
    std::process::exit(code);
}

fn run_cell(entry: &str, shape: &str, depth: usize) -> &'static str {
    fn oe<T, E>(r: &Result<T, E>) -> &'static str {
        if r.is_ok() {
            "ok"
        } else {
            "err"
        }
    }
    match entry {
        "parse_value" => {
            let t = deep_text(shape, depth);
            let r = jsonb::parse_value(&t);
            let o = oe(&r);
            std::mem::forget(r); // dropping a deep Value recurses in the harness, not in the call under test
            o
        }
        "Value::to_vec" => {
            let v = deep_value(shape, depth);
            let b = v.to_vec();
            std::mem::forget(v);
            if b.is_empty() {
                "err"
            } else {
                "ok"
            }
        }
        "from_slice" | "parse_jsonb" => {
            let b = deep_jsonb(shape, depth, 1);
            let r = if entry == "from_slice" { jsonb::from_slice(&b) } else { jsonb::parse_jsonb(&b) };
            let o = oe(&r);
            std::mem::forget(r);
            o
        }
        "to_string" => {
            let b = deep_jsonb(shape, depth, 1);
            let s = jsonb::to_string(&b);
            if s.len() >= depth {
                "ok"
            } else {
                "err"
            }
        }
        "to_pretty_string" => {
            // pretty output is quadratic in depth (indentation): cap the depth that is meaningful
            let b = deep_jsonb(shape, depth.min(20_000), 1);
            let s = jsonb::to_pretty_string(&b);
            if s.len() >= depth.min(20_000) {
                "ok"
            } else {
                "err"
            }
        }
        "compare" => {
            let a = deep_jsonb(shape, depth, 1);
            let b = deep_jsonb(shape, depth, 2);
            oe(&jsonb::compare(&a, &b))
        }
        "convert_to_comparable" => {
            // nesting beyond 255 is the separate C14 depth-marker finding; C20 observes crashes only
            // up to that bound for this entry point
            let b = deep_jsonb(shape, depth.min(255), 1);
            let mut k = Vec::new();
            jsonb::convert_to_comparable(&b, &mut k);
            "ok"
        }
        "contains" => {
            let a = deep_jsonb(shape, depth, 1);
            let b = deep_jsonb(shape, depth, 1);
            if jsonb::contains(&a, &b) {
                "ok"
            } else {
                "err"
            }
        }
        "strip_nulls" => {
            let a = deep_jsonb(shape, depth, 1);
            let mut o = Vec::new();
            let r = oe(&jsonb::strip_nulls(&a, &mut o));
            if r == "ok" {
                // the rebuilt document goes through the walkers again (a length that is wrong
                // for the container around a rebuilt one only shows in the next reader)
                let mut o2 = Vec::new();
                let _ = jsonb::strip_nulls(&o, &mut o2);
                let _ = jsonb::to_string(&o);
                let _ = jsonb::contains(&o, &o);
            }
            r
        }
        "to_serde_json" => {
            let a = deep_jsonb(shape, depth, 1);
            let r = jsonb::to_serde_json(&a);
            let o = oe(&r);
            std::mem::forget(r);
            o
        }
        "get_by_path" => {
            let a = deep_jsonb(shape, depth, 1);
            let p = deep_path(shape, depth);
            match jsonb::jsonpath::parse_json_path(&p) {
                Ok(jp) => {
                    let (mut d, mut o) = (Vec::new(), Vec::new());
                    oe(&jsonb::get_by_path(&a, jp, &mut d, &mut o))
                }
                Err(_) => "err",
            }
        }
        "get_by_keypath" => {
            let a = deep_jsonb(shape, depth, 1);
            let kp = lib_keypath(&deep_keypath(shape, depth));
            if jsonb::get_by_keypath(&a, kp.iter()).is_some() {
                "ok"
            } else {
                "err"
            }
        }
        "delete_by_keypath" => {
            let a = deep_jsonb(shape, depth, 1);
            let kp = lib_keypath(&deep_keypath(shape, depth));
            let mut o = Vec::new();
            let r = oe(&jsonb::delete_by_keypath(&a, kp.iter(), &mut o));
            if r == "ok" {
                let mut o2 = Vec::new();
                let _ = jsonb::strip_nulls(&o, &mut o2);
                let _ = jsonb::to_string(&o);
                let _ = jsonb::get_by_keypath(&o, kp.iter());
            }
            r
        }
        "traverse_check_string" => {
            let a = deep_jsonb(shape, depth, 1);
            if jsonb::traverse_check_string(&a, |_| false) {
                "err"
            } else {
                "ok"
            }
        }
        "concat" => {
            let a = deep_jsonb(shape, depth, 1);
            let b = deep_jsonb(shape, depth, 2);
            let mut o = Vec::new();
            oe(&jsonb::concat(&a, &b, &mut o))
        }
        "array_values/object_each/object_keys" => {
            let a = deep_jsonb(shape, depth, 1);
            let n = jsonb::array_values(&a).map(|v| v.len()).unwrap_or(0) + jsonb::object_each(&a).map(|v| v.len()).unwrap_or(0) + jsonb::object_keys(&a).map(|v| v.len()).unwrap_or(0);
            if n > 0 {
                "ok"
            } else {
                "err"
            }
        }
        "type_of/array_length/get_by_index/get_by_name" => {
            let a = deep_jsonb(shape, depth, 1);
            let ok = jsonb::type_of(&a).is_ok() && (jsonb::array_length(&a).is_some() || jsonb::get_by_name(&a, "a", false).is_some()) && (jsonb::get_by_index(&a, 0).is_some() || jsonb::is_object(&a));
            if ok {
                "ok"
            } else {
                "err"
            }
        }
        "array_distinct/array_insert/object_insert" => {
            let a = deep_jsonb(shape, depth, 1);
            let mut o = Vec::new();
            let r1 = jsonb::array_distinct(&a, &mut o).is_ok();
            let r2 = jsonb::array_insert(&a, 0, &a, &mut o).is_ok();
            let _ = jsonb::object_insert(&a, "zz", &a, true, &mut o);
            if r1 && r2 {
                "ok"
            } else {
                "err"
            }
        }
        "compare(text,text)" => {
            let a = deep_text(shape, depth);
            let mut b = a.clone();
            let mid = b.len() / 2;
            b[mid] = b'2';
            oe(&jsonb::compare(&a, &b))
        }
        "parse_lazy_value/to_value" => {
            let t = deep_text(shape, depth);
            let r = jsonb::parse_lazy_value(&t);
            let o = oe(&r);
            if let Ok(lv) = &r {
                let v = lv.to_vec();
                std::mem::forget(v);
            }
            std::mem::forget(r);
            o
        }
        "to_serde_json_object" => {
            let a = deep_jsonb(shape, depth, 1);
            let r = jsonb::to_serde_json_object(&a);
            let o = oe(&r);
            std::mem::forget(r);
            o
        }
        "exists_all_keys/path_exists" => {
            let a = deep_jsonb(shape, depth, 1);
            let keys: Vec<&[u8]> = vec![b"a"];
            let _ = jsonb::exists_all_keys(&a, keys.into_iter());
            match jsonb::jsonpath::parse_json_path(&deep_path(shape, depth)) {
                Ok(p) => oe(&jsonb::path_exists(&a, p)),
                Err(_) => "err",
            }
        }
        "parse_json_path(parens)" => {
            let mut s = b"$ ? (".to_vec();
            for _ in 0..depth {
                s.push(b'(');
            }
            s.extend_from_slice(b"@ == 1");
            for _ in 0..depth {
                s.push(b')');
            }
            s.push(b')');
            let r = jsonb::jsonpath::parse_json_path(&s);
            let o = oe(&r);
            std::mem::forget(r);
            o
        }
        "parse_json_path(nested-filters)" => {
            let mut s = b"$".to_vec();
            for _ in 0..depth {
                s.extend_from_slice(b"?(exists(@.a");
            }
            for _ in 0..depth {
                s.extend_from_slice(b"))");
            }
            let r = jsonb::jsonpath::parse_json_path(&s);
            let o = oe(&r);
            std::mem::forget(r);
            o
        }
        "parse_json_path(long)" => {
            let p = deep_path(shape, depth);
            let r = jsonb::jsonpath::parse_json_path(&p);
            oe(&r)
        }
        _ => "err",
    }
}

// ------------------------------------------------------------------ parent side

#[derive(Debug, Clone, PartialEq)]
enum CellResult {
    Done(String),
    Panic,
    /// killed by a signal (stack overflow => SIGABRT after "has overflowed its stack")
    Signal(String),
    Watchdog,
    Other(String),
}

fn run_one_cell(entry: &str, shape: &str, depth: usize) -> CellResult {
    let exe = match std::env::current_exe() {
        Ok(e) => e,
        Err(e) => return CellResult::Other(format!("current_exe: {}", e)),
    };
    let mut child = match Command::new(exe).args(["cell", entry, shape, &depth.to_string()]).stdout(Stdio::piped()).stderr(Stdio::piped()).spawn() {
        Ok(c) => c,
        Err(e) => return CellResult::Other(format!("spawn: {}", e)),
    };
    let t0 = Instant::now();
    loop {
        match child.try_wait() {
            Ok(Some(_)) => break,
            Ok(None) => {
                if t0.elapsed() > Duration::from_secs(120) {
                    let _ = child.kill();
                    let _ = child.wait();
                    return CellResult::Watchdog;
                }
                std::thread::sleep(Duration::from_millis(5));
            }
            Err(e) => return CellResult::Other(format!("wait: {}", e)),
        }
    }
    let out = match child.wait_with_output() {
        Ok(o) => o,
        Err(e) => return CellResult::Other(format!("output: {}", e)),
    };
    let so = String::from_utf8_lossy(&out.stdout).to_string();
    let se = String::from_utf8_lossy(&out.stderr).to_string();
    if let Some(l) = so.lines().find(|l| l.starts_with("CELL-DONE")) {
        return CellResult::Done(l[9..].trim().to_string());
    }
    if so.contains("CELL-PANIC") {
        return CellResult::Panic;
    }
    use std::os::unix::process::ExitStatusExt;
    if let Some(sig) = out.status.signal() {
        let why = if se.contains("overflowed its stack") { "stack-overflow" } else if se.contains("memory allocation") { "alloc-failure" } else { "signal" };
        return CellResult::Signal(format!("{}(sig {})", why, sig));
    }
    CellResult::Other(format!("exit {:?} stderr {}", out.status.code(), se.chars().take(200).collect::<String>()))
}

fn cells(ctx: &mut Ctx) {
    let max_depth = if ctx.tier == Tier::Quick { 10_000 } else { 300_000 };
    let mut k = 0usize;
    for entry in ENTRIES {
        for shape in SHAPES {
            if entry.starts_with("parse_json_path(p") || entry.starts_with("parse_json_path(n") {
                if *shape != "array" {
                    continue;
                }
            }
            k += 1;
            if k % ctx.nshards != ctx.shard {
                continue;
            }
            // ascend the schedule; stop at the first crash (deeper cells crash too)
            for &d in DEPTHS.iter().filter(|d| **d <= max_depth) {
                if !ctx.next_case() {
                    return;
                }
                let r = run_one_cell(entry, shape, d);
                ctx.count("cells");
                ctx.distinct(crate::prng::hash_bytes(format!("{}{}{}", entry, shape, d).as_bytes()));
                let info = || format!("cell entry={} shape={} depth={} result={:?} (subprocess `jv cell {} {} {}`, 8 MiB stack)", entry, shape, d, r, entry, shape, d);
                match &r {
                    CellResult::Done(o) => {
                        ctx.count(&format!("cell.done.{}", o));
                        ctx.sample(|| info());
                    }
                    CellResult::Panic => {
                        ctx.violation(&format!("{}/panic", entry), || info());
                        break;
                    }
                    CellResult::Signal(why) if why.starts_with("stack-overflow") => {
                        ctx.count("cell.stack-overflow");
                        match known_floor(entry) {
                            Some(floor) if d >= floor => ctx.violation(&format!("{}/stack-overflow/at-depth>={}", entry, floor), || info()),
                            Some(floor) => ctx.violation(&format!("{}/stack-overflow/at-depth={}(below the known floor {})", entry, d, floor), || info()),
                            None => ctx.violation(&format!("{}/stack-overflow/at-depth={}", entry, d), || info()),
                        }
                        break;
                    }
                    CellResult::Signal(why) if why.starts_with("alloc-failure") => {
                        ctx.notes.push(format!("allocation failure (not judged): {}", info()));
                        break;
                    }
                    CellResult::Signal(_) => {
                        ctx.violation(&format!("{}/killed-by-signal", entry), || info());
                        break;
                    }
                    CellResult::Watchdog => {
                        ctx.notes.push(format!("HARNESS-ERROR watchdog: {}", info()));
                        break;
                    }
                    CellResult::Other(_) => {
                        ctx.notes.push(format!("HARNESS-ERROR cell failed to run: {}", info()));
                        break;
                    }
                }
            }
        }
    }
}

// ------------------------------------------------------------------ extreme integer arguments (in-process)

const EXTREMES: &[i32] = &[i32::MIN, i32::MIN + 1, -1, 0, 1, i32::MAX - 1, i32::MAX];

fn call_buf<E: std::fmt::Debug>(ctx: &mut Ctx, name: &str, f: impl FnOnce(&mut Vec<u8>) -> Result<(), E>, info: &dyn Fn() -> String) -> Option<Result<Vec<u8>, String>> {
    match guard(|| {
        let mut o = Vec::new();
        f(&mut o).map(|_| o).map_err(|e| format!("{:?}", e))
    }) {
        Ok(r) => Some(r),
        Err(p) => {
            ctx.panic_violation(name, &p, info);
            None
        }
    }
}

fn integer_cells(ctx: &mut Ctx) {
    let mut rng = ctx.rng.fork();
    let docs: Vec<Tree> = vec![
        Tree::Arr(vec![]),
        Tree::Arr(vec![Tree::Num(Num::U(1))]),
        Tree::Arr(vec![Tree::Num(Num::U(1)), Tree::Str("a".into()), Tree::Arr(vec![Tree::Null, Tree::Bool(true)])]),
        Tree::Obj(vec![("a".into(), Tree::Arr(vec![Tree::Num(Num::U(1)), Tree::Num(Num::U(2))]))]),
        Tree::Num(Num::U(7)),
    ];
    for (t, as_text) in docs.iter().flat_map(|t| [(t, false), (t, true)]) {
        // the same extremes on the JSONB encoding and on the JSON text of the document
        let enc = if as_text { crate::refjson::compact(t) } else { refcodec::encode(t) };
        let len = if let Tree::Arr(v) = t { v.len() as i32 } else { 0 };
        let mut positions: Vec<i32> = EXTREMES.to_vec();
        positions.extend([-len - 1, -len, len - 1, len, len + 1]);
        for &pos in &positions {
            if !ctx.next_case() {
                return;
            }
            ctx.count("integer-cells");
            let info = || format!("doc{}={} position={}", if as_text { "(as text)" } else { "" }, t.show(), pos);
            // delete_by_index / array_insert
            let got = call_buf(ctx, "delete_by_index(extreme)", |o| jsonb::delete_by_index(&enc, pos, o), &info);
                super::c06::judge(ctx, "delete_by_index(extreme)", got, &refops::delete_by_index(t, pos), false, &info);
            let new = Tree::Num(Num::U(9));
            let nenc = refcodec::encode(&new);
            let got = call_buf(ctx, "array_insert(extreme)", |o| jsonb::array_insert(&enc, pos, &nenc, o), &info);
                super::c06::judge(ctx, "array_insert(extreme)", got, &Edit::Ok(refops::array_insert(t, pos, &new)), false, &info);
            // get_by_index takes a usize: the ends of that range and of the narrower integer types
            if pos == 0 {
                for ix in [usize::MAX, usize::MAX / 2, usize::MAX / 4 + 1, usize::MAX / 4, i64::MAX as usize, u32::MAX as usize, u32::MAX as usize + 1, i32::MAX as usize, 1usize << 29] {
                    match guard(|| jsonb::get_by_index(&enc, ix)) {
                        Err(p) => ctx.panic_violation("get_by_index(extreme)", &p, &|| format!("index={} ; {}", ix, info())),
                        Ok(Some(b)) => ctx.violation("get_by_index(extreme)/some", || format!("index={} returned {} ; {}", ix, hex(&b), info())),
                        Ok(None) => {}
                    }
                }
            }
            // key paths with extreme indices
            for kp in [vec![KP::Index(pos)], vec![KP::Name("a".into()), KP::Index(pos)], vec![KP::Index(2), KP::Index(pos)]] {
                let lp = lib_keypath(&kp);
                let kinfo = || format!("keypath={:?} ; {}", kp, info());
                match guard(|| jsonb::get_by_keypath(&enc, lp.iter())) {
                    Err(p) => ctx.panic_violation("get_by_keypath(extreme)", &p, &kinfo),
                    Ok(got) => {
                        let exp = refops::get_by_keypath(t, &kp);
                        match (got, exp) {
                            (None, None) => {}
                            (Some(b), Some(x)) => {
                                ctx.check_doc("get_by_keypath(extreme)", &b, &x, &kinfo);
                            }
                            (g, x) => ctx.violation("get_by_keypath(extreme)/wrong", || format!("{:?} vs {:?} ; {}", g.map(|b| hex(&b)), x.map(|t| t.show()), kinfo())),
                        }
                    }
                }
                let got = call_buf(ctx, "delete_by_keypath(extreme)", |o| jsonb::delete_by_keypath(&enc, lp.iter(), o), &kinfo);
                    super::c06::judge(ctx, "delete_by_keypath(extreme)", got, &refops::delete_by_keypath(t, &kp), false, &kinfo);
            }
            // JSONPath indices and ranges with extreme values (parsed from text, evaluated, compared with the model)
            let forms: Vec<Vec<AIdx>> = vec![
                vec![AIdx::One(Idx::I(pos))],
                vec![AIdx::One(Idx::Last(pos))],
                vec![AIdx::Range(Idx::I(pos), Idx::I(i32::MAX))],
                vec![AIdx::Range(Idx::I(i32::MIN + 1), Idx::Last(pos))],
                vec![AIdx::Range(Idx::Last(pos), Idx::Last(0))],
                vec![AIdx::Range(Idx::Last(i32::MIN + 1), Idx::Last(pos))],
            ];
            for f in forms {
                if as_text {
                    break;
                }
                // `last - 2147483648` cannot be written (the grammar reads an i32 after the minus)
                let writable = f.iter().all(|a| match a {
                    AIdx::One(Idx::Last(n)) | AIdx::Range(Idx::Last(n), _) | AIdx::Range(_, Idx::Last(n)) => *n != i32::MIN,
                    _ => true,
                });
                if !writable {
                    continue;
                }
                let p = JPath::Steps(vec![Step::Indices(f)]);
                let text = refpath::render(&p, &refpath::PLAIN, &mut rng);
                super::c08::check(ctx, t, &p, &text);
                let p2 = JPath::Steps(vec![Step::Name("a".into(), refpath::NameStyle::Dot), if let JPath::Steps(s) = &p { s[0].clone() } else { unreachable!() }]);
                let text2 = refpath::render(&p2, &refpath::PLAIN, &mut rng);
                super::c08::check(ctx, t, &p2, &text2);
            }
        }
    }
    // paths and key paths built through the public types (not parsed), with the extremes in
    // every index position: printed, and evaluated in every mode
    {
        use jsonb::jsonpath::{ArrayIndex, Index, JsonPath, Mode, Path, Selector};
        use jsonb::keypath::{KeyPath, KeyPaths};
        let doc = refcodec::encode(&Tree::Arr(vec![Tree::Num(Num::U(1)), Tree::Str("a".into()), Tree::Arr(vec![Tree::Null])]));
        for &x in EXTREMES {
            for &y in EXTREMES {
                ctx.next_case();
                ctx.count("api-built-path-cells");
                let info = || format!("indices built from {} and {}", x, y);
                let forms: Vec<Vec<ArrayIndex>> = vec![
                    vec![ArrayIndex::Index(Index::Index(x)), ArrayIndex::Index(Index::LastIndex(y))],
                    vec![ArrayIndex::Slice((Index::Index(x), Index::LastIndex(y)))],
                    vec![ArrayIndex::Slice((Index::LastIndex(x), Index::Index(y))), ArrayIndex::Index(Index::Index(0))],
                    vec![ArrayIndex::Index(Index::Index(2)), ArrayIndex::Index(Index::Index(0)), ArrayIndex::Index(Index::LastIndex(x))],
                ];
                for f in forms {
                    let r = guard(|| {
                        let p = JsonPath { paths: vec![Path::Root, Path::ArrayIndices(f.clone())] };
                        let text = format!("{}", p);
                        for m in [Mode::All, Mode::First, Mode::Array, Mode::Mixed] {
                            let sel = Selector::new(p.clone(), m);
                            let (mut d, mut o) = (Vec::new(), Vec::new());
                            let _ = sel.select(&doc, &mut d, &mut o);
                            let _ = sel.exists(&doc);
                        }
                        text
                    });
                    if let Err(p) = r {
                        ctx.panic_violation("JsonPath(api-built, extreme indices)", &p, &info);
                    }
                }
                let r = guard(|| {
                    let k = KeyPaths { paths: vec![KeyPath::Index(x), KeyPath::Index(y)] };
                    let text = format!("{}", k);
                    let _ = jsonb::get_by_keypath(&doc, k.paths.iter());
                    let mut o = Vec::new();
                    let _ = jsonb::delete_by_keypath(&doc, k.paths.iter(), &mut o);
                    text
                });
                if let Err(p) = r {
                    ctx.panic_violation("KeyPaths(api-built, extreme indices)", &p, &info);
                }
            }
        }
        // index lists in every order (ascending, descending, repeated, `last` first)
        for text in ["$[1,0]", "$[2,1,0]", "$[last,0]", "$[last,2,last]", "$[1 to last,0]", "$[2 to last, 0 to 1]", "$[0,0]", "$[last - 1 to 2147483647, -2147483648 to 0]", "$[2147483647,0]", "$[0,-2147483648,1]"] {
            ctx.next_case();
            for m in 0..4 {
                if let super::paths::Sel::Panic(p) = super::paths::select(text.as_bytes(), &doc, m) {
                    ctx.panic_violation("select(index list order)", &p, &|| format!("path={}", text));
                }
            }
        }
    }
    // every step kind applied to every kind of value (wildcards on objects below the root, index
    // steps on objects, name steps on arrays, filters on scalars ...): a result or an error
    {
        let docs: Vec<Tree> = vec![
            Tree::obj_from(vec![("a".into(), Tree::obj_from(vec![("b".into(), Tree::Num(Num::U(1)))])), ("c".into(), Tree::Num(Num::U(2)))]),
            Tree::obj_from(vec![("a".into(), Tree::Arr(vec![Tree::obj_from(vec![("b".into(), Tree::Num(Num::U(1)))]), Tree::Arr(vec![])])), ("c".into(), Tree::Arr(vec![]))]),
            Tree::Arr(vec![Tree::Arr(vec![Tree::Num(Num::U(1)), Tree::obj_from(vec![("x".into(), Tree::Num(Num::U(2)))])]), Tree::obj_from(vec![("y".into(), Tree::Arr(vec![Tree::Num(Num::U(3))]))]), Tree::Str("s".into())]),
            Tree::obj_from(vec![("a".into(), Tree::Obj(vec![])), ("b".into(), Tree::Arr(vec![Tree::Obj(vec![])]))]),
            Tree::Str("abcd".into()),
            Tree::Obj(vec![]),
        ];
        let paths = [
            "$", "$.a", "$.*", "$[*]", "$.a[*]", "$.*[*]", "$[*][*]", "$.a.*", "$.a[*].b", "$.a[*][*]", "$.c[*]", "$.b[*][*]", "$.*[0]", "$[last][*]", "$[0 to last]", "$.a[0 to last]", "$.a[last]",
            "$.a ? (@.b == 1)", "$[*] ? (exists(@.x))", "$.* ? (@ == 2)", "$ ? (@.a.b == 1)", "$.a[*] ? (@.b > 0).b", "$[*].y[*]", "$.a.b.c", "$[0][1].x", "$.a == 1", "$.a.b == 1 || $.c == 2", "exists($.a[*])",
        ];
        for t in &docs {
            let enc = refcodec::encode(t);
            let text = crate::refjson::compact(t);
            for p in paths {
                ctx.next_case();
                ctx.count("step-kind-cells");
                let info = || format!("path={} doc={}", p, t.show());
                for m in 0..4 {
                    if let super::paths::Sel::Panic(pn) = super::paths::select(p.as_bytes(), &enc, m) {
                        ctx.panic_violation("select(step kinds)", &pn, &info);
                    }
                }
                if let Err(pn) = super::paths::exists(p.as_bytes(), &enc) {
                    ctx.panic_violation("exists(step kinds)", &pn, &info);
                }
                if let Err(pn) = super::paths::predicate_match(p.as_bytes(), &enc) {
                    ctx.panic_violation("predicate_match(step kinds)", &pn, &info);
                }
                let r = guard(|| {
                    if let Ok(jp) = jsonb::jsonpath::parse_json_path(p.as_bytes()) {
                        let (mut d, mut o) = (Vec::new(), Vec::new());
                        let _ = jsonb::get_by_path(&text, jp.clone(), &mut d, &mut o);
                        let _ = jsonb::get_by_path_array(&enc, jp.clone(), &mut d, &mut o);
                        let _ = jsonb::path_exists(&text, jp);
                    }
                });
                if let Err(pn) = r {
                    ctx.panic_violation("get_by_path(step kinds)", &pn, &info);
                }
            }
        }
    }
    // random paths with big indices
    let n = ctx.budget(4_000, 100_000);
    let cfg = PathCfg { max_steps: 3, filters: true, big_indices: true };
    for _ in 0..n {
        if !ctx.next_case() {
            return;
        }
        let doc = gen::doc(&mut rng, &gen::DOC_FINITE);
        let pg = PathGen::new(&doc);
        let p = pg.path(&mut rng, &cfg);
        let text = refpath::render(&p, &refpath::PLAIN, &mut rng);
        ctx.count("integer-cells");
        super::c08::check(ctx, &doc, &p, &text);
    }
}

/// every pairing of number encodings (signed, unsigned, float; zero, negative, huge, NaN,
/// infinities) through everything that orders or equates numbers. A mutual recursion between
/// two arms of the ordering exhausts the stack for one particular pairing only; that kills the
/// process, which the driver reports as a process abort of this case.
fn number_class_cells(ctx: &mut Ctx) {
    let reps: Vec<Num> = vec![
        Num::I(-3), Num::I(0), Num::I(5), Num::I(i64::MIN), Num::U(0), Num::U(5), Num::U(u64::MAX), Num::f(0.5), Num::f(-3.0), Num::f(5.0), Num::f(-0.0), Num::f(1e300), Num::f(-1e300),
        Num::f(f64::NAN), Num::f(f64::INFINITY), Num::f(f64::NEG_INFINITY),
    ];
    let mut rng = ctx.rng.fork();
    for a in &reps {
        for b in &reps {
            if !ctx.next_case() {
                return;
            }
            ctx.count("number-class-cells");
            let info = || format!("numbers {} and {}", a.show(), b.show());
            let (ta, tb) = (Tree::Num(*a), Tree::Num(*b));
            let (ea, eb) = (refcodec::encode(&ta), refcodec::encode(&tb));
            let (arr_a, arr_b) = (refcodec::encode(&Tree::Arr(vec![ta.clone(), tb.clone()])), refcodec::encode(&Tree::Arr(vec![tb.clone()])));
            let r = guard(|| {
                let (la, lb) = (a.to_lib(), b.to_lib());
                let _ = la.cmp(&lb);
                let _ = la == lb;
                let _ = jsonb::compare(&ea, &eb);
                let _ = jsonb::compare(&arr_a, &arr_b);
                let _ = jsonb::contains(&arr_a, &arr_b);
                let _ = jsonb::contains(&ea, &eb);
                let _ = jsonb::array_overlap(&arr_a, &arr_b);
                let mut o = Vec::new();
                let _ = jsonb::array_distinct(&arr_a, &mut o);
                let mut o = Vec::new();
                let _ = jsonb::array_intersection(&arr_a, &arr_b, &mut o);
                let _ = ta.to_value() == tb.to_value();
                let mut k = Vec::new();
                jsonb::convert_to_comparable(&arr_a, &mut k);
            });
            if let Err(p) = r {
                ctx.panic_violation("compare/contains/sets(number classes)", &p, &info);
            }
            if a.is_finite() && b.is_finite() {
                // as text, and through a path filter with the second number as literal
                let (xa, xb) = (crate::refjson::compact(&ta), crate::refjson::compact(&tb));
                let r = guard(|| {
                    let _ = jsonb::compare(&xa, &xb);
                    let _ = jsonb::compare(&xa, &eb);
                    let _ = jsonb::contains(&xa, &xb);
                });
                if let Err(p) = r {
                    ctx.panic_violation("compare/contains(number classes, text)", &p, &info);
                }
                for op in ["==", "<", ">=", "!="] {
                    let text = format!("$[*] ? (@ {} {})", op, String::from_utf8_lossy(&xb));
                    for mode in 0..2 {
                        if let super::paths::Sel::Panic(p) = super::paths::select(text.as_bytes(), &arr_a, mode) {
                            ctx.panic_violation("select(number classes)", &p, &info);
                        }
                    }
                    let pred = format!("$[0] {} $[1]", op);
                    if let Err(p) = super::paths::predicate_match(pred.as_bytes(), &arr_a) {
                        ctx.panic_violation("predicate_match(number classes)", &p, &info);
                    }
                }
            }
            let _ = &mut rng;
        }
    }
}

/// every \uXXXX code unit on its own, and surrogate pairs around the range ends, through each
/// parser that decodes escapes: a value or an error, never a panic
fn escape_cells(ctx: &mut Ctx) {
    let step = if ctx.miri { 997 } else { 1 };
    let mut u = ctx.shard as u32 * step;
    ctx.next_case();
    let mut swept = 0u64;
    while u <= 0xFFFF {
        for text in [format!("\"\\u{:04x}\"", u), format!("\"\\u{:04X}x\"", u), format!("[\"a\\u{{{:x}}}\"]", u)] {
            if let Err(p) = guard(|| jsonb::parse_value(text.as_bytes()).map(|_| ())) {
                ctx.panic_violation("parse_value(escape)", &p, &|| format!("text={:?}", text));
            }
        }
        if u % 64 == (ctx.shard as u32 % 64) || (0xD7F0..=0xE010).contains(&u) {
            let kp = format!("{{\"\\u{:04x}\"}}", u);
            if let Err(p) = guard(|| jsonb::keypath::parse_key_paths(kp.as_bytes()).map(|_| ())) {
                ctx.panic_violation("parse_key_paths(escape)", &p, &|| format!("text={:?}", kp));
            }
            let jp = format!("$.\"\\u{:04x}\" ? (@ == \"\\u{:04x}\")", u, u);
            if let Err(p) = guard(|| jsonb::jsonpath::parse_json_path(jp.as_bytes()).map(|_| ())) {
                ctx.panic_violation("parse_json_path(escape)", &p, &|| format!("text={:?}", jp));
            }
        }
        swept += 1;
        u += ctx.nshards as u32 * step;
    }
    ctx.count_n("escape-cells.code-units", swept);
    if ctx.shard == 0 {
        let ends = [0xD800u32, 0xD801, 0xD83D, 0xDBFE, 0xDBFF, 0xDC00, 0xDC01, 0xDFFE, 0xDFFF, 0xD7FF, 0xE000, 0x0041, 0xFFFF];
        for a in ends {
            for b in ends {
                for text in [format!("\"\\u{:04x}\\u{:04x}\"", a, b), format!("\"\\u{{{:x}}}\\u{{{:x}}}\"", a, b), format!("{{\"\\u{:04X}\\u{:04X}\":1}}", a, b)] {
                    ctx.count("escape-cells.pairs");
                    if let Err(p) = guard(|| jsonb::parse_value(text.as_bytes()).map(|_| ())) {
                        ctx.panic_violation("parse_value(escape)", &p, &|| format!("text={:?}", text));
                    }
                }
            }
        }
        for big in ["110000", "10ffff", "ffffff", "7fffffff", "ffffffff", "100000000", "0", "d800", "dfff"] {
            let text = format!("\"\\u{{{}}}\"", big);
            if let Err(p) = guard(|| jsonb::parse_value(text.as_bytes()).map(|_| ())) {
                ctx.panic_violation("parse_value(escape)", &p, &|| format!("text={:?}", text));
            }
        }
    }
}

/// path queries on buffers that held another document of the same size a moment ago, and on
/// the text of the document
fn history_cells(ctx: &mut Ctx) {
    let mon = super::routes::Monitor::new(super::routes::PATHS);
    let n = ctx.budget(3_000, 60_000);
    let mut rng = ctx.rng.fork();
    for _ in 0..n {
        if !ctx.next_case() {
            return;
        }
        ctx.count("history-cells");
        let k = 2 + rng.below(3);
        let strs: Vec<Tree> = (0..k).map(|_| Tree::Str((0..rng.below(4) + 1).map(|_| (b'a' + rng.below(3) as u8) as char).collect())).collect();
        let doc = if rng.bool() { Tree::Arr(strs) } else { Tree::Obj(vec![("a".into(), Tree::Arr(strs)), ("b".into(), Tree::Str("ab".into()))]) };
        let i = rng.below(k);
        let path = match (&doc, rng.below(3)) {
            (Tree::Arr(_), 0) => format!("$[{}]", i),
            (Tree::Arr(_), 1) => format!("$[last - {}]", i),
            (Tree::Arr(_), _) => format!("$[{} to last]", i),
            (_, 0) => format!("$.a[{}]", i),
            (_, 1) => format!("$.*[{}]", i),
            _ => format!("$.a[0 to {}]", i),
        };
        let args = super::routes::path_args(&doc, path.clone(), format!("{} == \"ab\"", path), &mut rng);
        mon.check(ctx, &doc, &doc, &args, &mut rng);
    }
}

pub fn run(ctx: &mut Ctx) {
    if ctx.miri {
        // no subprocesses under Miri
        integer_cells(ctx);
        escape_cells(ctx);
        return;
    }
    cells(ctx);
    if ctx.shard == 0 {
        integer_cells(ctx);
    }
    if ctx.shard == 1 % ctx.nshards {
        number_class_cells(ctx);
    }
    if ctx.shard == 2 % ctx.nshards {
        history_cells(ctx);
    }
    escape_cells(ctx);
}
