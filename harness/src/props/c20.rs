use crate::monitor::Ctx;
pub fn run(_ctx: &mut Ctx) {}
pub fn cell_main(_args: &[String]) {}
