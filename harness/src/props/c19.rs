//! C19 — conversion to and from serde_json preserves the document.

use crate::gen;
use crate::monitor::{guard, Ctx};
use crate::refcodec;
use crate::refjson;
use crate::tree::{hex, Num, Tree};
use serde_json::Value as J;

/// structural walk comparing a serde value with a tree: strings, member sets, each number's class
fn same(j: &J, t: &Tree) -> Result<(), String> {
    match (j, t) {
        (J::Null, Tree::Null) => Ok(()),
        (J::Bool(a), Tree::Bool(b)) if a == b => Ok(()),
        (J::String(a), Tree::Str(b)) if a == b => Ok(()),
        (J::Number(n), Tree::Num(m)) => {
            let ok = match m {
                Num::U(v) => n.is_u64() && n.as_u64() == Some(*v),
                Num::I(v) => {
                    // same integer: serde classifies non-negative integers as u64
                    if *v >= 0 {
                        n.is_u64() && n.as_u64() == Some(*v as u64)
                    } else {
                        n.is_i64() && n.as_i64() == Some(*v)
                    }
                }
                Num::F(b) => n.is_f64() && !n.is_i64() && !n.is_u64() && n.as_f64().map(|x| x.to_bits()) == Some(*b),
            };
            if ok {
                Ok(())
            } else {
                Err(format!("number {:?} vs {}", n, m.show()))
            }
        }
        (J::Array(a), Tree::Arr(b)) => {
            if a.len() != b.len() {
                return Err(format!("array length {} vs {}", a.len(), b.len()));
            }
            for (x, y) in a.iter().zip(b) {
                same(x, y)?;
            }
            Ok(())
        }
        (J::Object(a), Tree::Obj(b)) => {
            if a.len() != b.len() {
                return Err(format!("object size {} vs {}", a.len(), b.len()));
            }
            for (k, y) in b {
                match a.get(k) {
                    Some(x) => same(x, y)?,
                    None => return Err(format!("member {:?} missing", k)),
                }
            }
            Ok(())
        }
        _ => Err(format!("kind mismatch: {} vs {}", j, t.show())),
    }
}

pub fn check_one(ctx: &mut Ctx, t: &Tree) {
    let enc = refcodec::encode(t);
    let info = || format!("doc={} bytes={}", t.show(), hex(&enc));
    ctx.count("to_serde_json.calls");
    // what an independent strict parser reads from the text rendering
    let rendered = match guard(|| jsonb::to_string(&enc)) {
        Ok(s) => s,
        Err(p) => {
            ctx.panic_violation("to_string", &p, &info);
            return;
        }
    };
    let from_text = refjson::parse(rendered.as_bytes(), refjson::Mode::Strict).map(|p| p.tree);
    match guard(|| jsonb::to_serde_json(&enc)) {
        Err(p) => ctx.panic_violation("to_serde_json", &p, &info),
        Ok(Err(e)) => ctx.violation("to_serde_json/err-on-valid", || format!("{:?} ; {}", e, info())),
        Ok(Ok(j)) => {
            if let Err(why) = same(&j, t) {
                ctx.violation("to_serde_json/differs-from-document", || format!("{} ; got {} ; {}", why, j, info()));
            }
            if let Ok(tt) = &from_text {
                if let Err(why) = same(&j, tt) {
                    ctx.violation("to_serde_json/differs-from-strict-parse-of-rendering", || format!("{} ; got {} rendering {:?} ; {}", why, j, rendered, info()));
                }
            }
            // back-conversion
            match guard(|| {
                let back: jsonb::Value = jsonb::Value::from(&j);
                let orig = t.to_value();
                (back == orig, Tree::from_value(&back))
            }) {
                Err(p) => ctx.panic_violation("Value::from(serde)", &p, &info),
                Ok((eq, bt)) => {
                    let structurally = matches!(&bt, Ok(b) if b.same_value(t) && b.same_encoding(&t.text_norm()));
                    if !eq || !structurally {
                        ctx.violation("from-serde/not-inverse", || format!("Value::from(to_serde_json(doc)) = {:?} ; eq={} ; {}", bt.map(|b| b.show()), eq, info()));
                    }
                }
            }
            // object-only variant
            match guard(|| jsonb::to_serde_json_object(&enc)) {
                Err(p) => ctx.panic_violation("to_serde_json_object", &p, &info),
                Ok(Err(e)) => ctx.violation("to_serde_json_object/err-on-valid", || format!("{:?} ; {}", e, info())),
                Ok(Ok(o)) => match (t, o) {
                    (Tree::Obj(_), Some(m)) => {
                        if J::Object(m.clone()) != j {
                            ctx.violation("to_serde_json_object/disagrees-with-general", || format!("{:?} vs {} ; {}", m, j, info()));
                        }
                    }
                    (Tree::Obj(_), None) => ctx.violation("to_serde_json_object/none-for-object", || info()),
                    (_, Some(m)) => ctx.violation("to_serde_json_object/some-for-non-object", || format!("{:?} ; {}", m, info())),
                    (_, None) => {}
                },
            }
        }
    }
    // tree conversion: From<Value> for serde_json::Value
    match guard(|| {
        let v = t.to_value();
        let j: J = v.into();
        j
    }) {
        Err(p) => ctx.panic_violation("JsonValue::from(Value)", &p, &info),
        Ok(j) => {
            if let Err(why) = same(&j, t) {
                ctx.violation("JsonValue::from(Value)/differs", || format!("{} ; got {} ; {}", why, j, info()));
            }
        }
    }
    if t.nodes() > 1 || matches!(t, Tree::Num(_)) {
        ctx.distinct(t.hash64());
    }
}

pub fn run(ctx: &mut Ctx) {
    let small = gen::enumerate_small(if ctx.miri { 2 } else { 4 });
    for (i, t) in small.iter().enumerate() {
        if i % ctx.nshards != ctx.shard {
            continue;
        }
        if !ctx.next_case() {
            return;
        }
        check_one(ctx, t);
    }
    let mon = super::routes::Monitor::new(&["to_serde_json", "to_serde_json_object"]);
    if ctx.shard == 0 {
        let mut rng = ctx.rng.fork();
        for v in gen::int_pool() {
            ctx.next_case();
            if v >= 0 {
                let t = Tree::Obj(vec![("n".into(), Tree::Arr(vec![Tree::Num(Num::U(v as u64))]))]);
                let args = super::routes::plain_args(&t, &mut rng);
                mon.check(ctx, &t, &t, &args, &mut rng);
            }
            if v >= 0 {
                check_one(ctx, &Tree::Arr(vec![Tree::Num(Num::U(v as u64))]));
            }
            if v <= i64::MAX as i128 {
                check_one(ctx, &Tree::Obj(vec![("n".into(), Tree::Num(Num::I(v as i64)))]));
            }
        }
        for f in gen::float_pool() {
            ctx.next_case();
            check_one(ctx, &Tree::Num(Num::f(f)));
        }
        // arrays of sixteen and more numbers that are all stored nine bytes wide, doubles and
        // integers beyond 32 bits mixed in every order
        if !ctx.miri {
            for k in 0..24usize {
                ctx.next_case();
                let n = 14 + k;
                let mut rng = ctx.rng.fork();
                let v: Vec<Tree> = (0..n).map(|j| match (j + k) % 3 { 0 => Tree::Num(Num::f(0.25 + j as f64)), 1 => Tree::Num(Num::U(1_700_000_000_000 + rng.next_u64() % 1_000_000)), _ => Tree::Num(Num::I(-(5_000_000_000 + j as i64))) }).collect();
                check_one(ctx, &Tree::Arr(v.clone()));
                check_one(ctx, &Tree::Obj(vec![("ts".into(), Tree::Arr(v))]));
            }
        }
        // member names and strings around 2^8 and 2^16 bytes, followed by further members
        if !ctx.miri {
            for n in [255usize, 256, 65_535, 65_536, 70_000] {
                ctx.next_case();
                let k: String = (0..n).map(|i| (b'a' + (i % 26) as u8) as char).collect();
                let t = Tree::obj_from(vec![("a".into(), Tree::Num(Num::U(1))), (k.clone(), Tree::Str(k.clone())), (format!("{}z", k), Tree::Null), ("zz".into(), Tree::Arr(vec![Tree::Bool(true)]))]);
                check_one(ctx, &t);
                check_one(ctx, &Tree::Arr(vec![t, Tree::Str("after".into())]));
            }
        }
    }
    let n = ctx.budget(1_000_000, 20_000_000);
    for i in 0..n {
        if !ctx.next_case() {
            return;
        }
        let mut rng = ctx.rng.fork();
        let t = if i % 4001 == 7 && !ctx.miri { gen::big_doc(&mut rng, true) } else { gen::doc(&mut rng, if i % 4 == 0 { &gen::DocCfg { max_depth: 7, max_fan: 4, nonfinite: false, container_p: 6 } } else { &gen::DOC_FINITE }) };
        check_one(ctx, &t);
        if i % 3 == 1 && t.nodes() < 300 {
            let args = super::routes::plain_args(&t, &mut rng);
            mon.check(ctx, &t, &t, &args, &mut rng);
        }
        ctx.sample(|| t.show());
    }
}
