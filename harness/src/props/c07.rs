//! C07 — any chain of operations keeps documents canonical and equal to the tree result.
//! History monitor: a pool of live documents, each step applies one library operation to the
//! *library's own earlier output bytes* and the result is fed back into the pool.

use super::c05::lib_keypath;
use super::paths::*;
use crate::gen::{self, PathCfg, PathGen};
use crate::monitor::{guard, Ctx};
use crate::prng::Rng;
use crate::refcodec;
use crate::refops::{self, Edit};
use crate::refpath::{self, Outcome};
use crate::tree::{hex, Tree};
use std::collections::BTreeSet;

struct Live {
    bytes: Vec<u8>,
    tree: Tree,
}

enum StepOut {
    /// operation produced documents (bytes as returned by the library, expected tree)
    Docs(Vec<(Vec<u8>, Tree)>),
    /// nothing to feed back (documented error, None, unspecified path ...)
    Nothing,
}

fn buf_op<E: std::fmt::Debug>(ctx: &mut Ctx, name: &str, f: impl FnOnce(&mut Vec<u8>) -> Result<(), E>, exp: Edit, info: &dyn Fn() -> String) -> StepOut {
    // the result is appended behind an earlier row (documents stored back to back)
    const ROW: [u8; 12] = [0x80, 0, 0, 1, 0x20, 0, 0, 2, 0x50, 7, 0xAA, 0x55];
    let mut out = ROW.to_vec();
    match guard(|| f(&mut out)) {
        Err(p) => {
            ctx.panic_violation(name, &p, info);
            StepOut::Nothing
        }
        Ok(Ok(())) => match exp {
            Edit::Ok(t) => {
                if out.len() < ROW.len() || out[..ROW.len()] != ROW {
                    ctx.violation(&format!("{}/earlier-row-modified", name), || format!("the buffer held {} ; after the call {} ; {}", hex(&ROW), hex(&out), info()));
                    return StepOut::Nothing;
                }
                let out = out.split_off(ROW.len());
                StepOut::Docs(vec![(out, t)])
            }
            Edit::Err(e) => {
                ctx.violation(&format!("{}/ok-expected-documented-error", name), || format!("expected {} ; {}", e, info()));
                StepOut::Nothing
            }
        },
        Ok(Err(e)) => {
            if let Edit::Ok(t) = exp {
                ctx.violation(&format!("{}/err-on-valid", name), || format!("Err({:?}) expected {} ; {}", e, t.show(), info()));
            }
            StepOut::Nothing
        }
    }
}

fn opt_op(ctx: &mut Ctx, name: &str, got: Result<Option<Vec<u8>>, crate::monitor::Panicked>, exp: Option<Tree>, info: &dyn Fn() -> String) -> StepOut {
    match got {
        Err(p) => {
            ctx.panic_violation(name, &p, info);
            StepOut::Nothing
        }
        Ok(Some(b)) => match exp {
            Some(t) => StepOut::Docs(vec![(b, t)]),
            None => {
                ctx.violation(&format!("{}/some-expected-none", name), || info());
                StepOut::Nothing
            }
        },
        Ok(None) => {
            if let Some(t) = exp {
                ctx.violation(&format!("{}/none-expected-some", name), || format!("expected {} ; {}", t.show(), info()));
            }
            StepOut::Nothing
        }
    }
}

fn one_step(ctx: &mut Ctx, rng: &mut Rng, pool: &[Live], shared: &mut (Vec<u8>, Vec<u64>)) -> (String, StepOut) {
    let x = rng.pick(pool);
    let y = rng.pick(pool);
    let (ta, tb) = (&x.tree, &y.tree);
    // one step in five takes an operand as JSON text, written with every kind of white space the
    // parser skips (blank, tab, CR, LF, form feed and their escaped spellings)
    let st = crate::refjson::Style { ws: 2, esc: 1, numvar: true };
    let text_a: Option<Vec<u8>> = if ta.all_finite() && ta.nodes() < 200 && rng.chance(1, 5) { Some(crate::refjson::to_text(ta, &st, rng, false)) } else { None };
    let text_b: Option<Vec<u8>> = if tb.all_finite() && tb.nodes() < 200 && rng.chance(1, 5) { Some(crate::refjson::to_text(tb, &st, rng, false)) } else { None };
    let jsonb_a = &x.bytes;
    let jsonb_ta = &x.tree;
    let (a, b) = (text_a.as_ref().unwrap_or(&x.bytes), text_b.as_ref().unwrap_or(&y.bytes));
    // (a text operand denotes what the text parser reads: non-negative integers unsigned)
    let (norm_a, norm_b);
    let ta = if text_a.is_some() { norm_a = ta.text_norm(); &norm_a } else { ta };
    let tb = if text_b.is_some() { norm_b = tb.text_norm(); &norm_b } else { tb };
    let name_arg: String = match ta {
        Tree::Obj(v) if !v.is_empty() && rng.chance(3, 4) => v[rng.below(v.len())].0.clone(),
        Tree::Arr(v) if !v.is_empty() && rng.chance(1, 2) => match rng.pick(v) {
            Tree::Str(s) => s.clone(),
            _ => gen::key(rng),
        },
        _ => gen::key(rng),
    };
    let len = match ta {
        Tree::Arr(v) => v.len() as i64,
        _ => 1,
    };
    let pos = rng.range(-len - 2, len + 2) as i32;
    let which = rng.below(28);
    let opname;
    let out = match which {
        0 | 1 => {
            opname = "concat";
            let info = || format!("concat(left={}, right={})", ta.show(), tb.show());
            buf_op(ctx, opname, |o| jsonb::concat(a, b, o), Edit::Ok(refops::concat(ta, tb)), &info)
        }
        2 => {
            opname = "delete_by_name";
            let info = || format!("delete_by_name({}, {:?})", ta.show(), name_arg);
            buf_op(ctx, opname, |o| jsonb::delete_by_name(a, &name_arg, o), refops::delete_by_name(ta, &name_arg), &info)
        }
        3 => {
            opname = "delete_by_index";
            let info = || format!("delete_by_index({}, {})", ta.show(), pos);
            buf_op(ctx, opname, |o| jsonb::delete_by_index(a, pos, o), refops::delete_by_index(ta, pos), &info)
        }
        4 => {
            opname = "delete_by_keypath";
            let kp = if rng.chance(1, 8) { Vec::new() } else { gen::keypath_for(ta, rng) };
            let lp = lib_keypath(&kp);
            let info = || format!("delete_by_keypath({}, {:?})", ta.show(), kp);
            buf_op(ctx, opname, |o| jsonb::delete_by_keypath(a, lp.iter(), o), refops::delete_by_keypath(ta, &kp), &info)
        }
        5 | 6 => {
            opname = "array_insert";
            let info = || format!("array_insert({}, {}, {})", ta.show(), pos, tb.show());
            buf_op(ctx, opname, |o| jsonb::array_insert(a, pos, b, o), Edit::Ok(refops::array_insert(ta, pos, tb)), &info)
        }
        7 | 8 => {
            opname = "object_insert";
            let upd = rng.bool();
            let info = || format!("object_insert({}, {:?}, {}, {})", ta.show(), name_arg, tb.show(), upd);
            buf_op(ctx, opname, |o| jsonb::object_insert(a, &name_arg, b, upd, o), refops::object_insert(ta, &name_arg, tb, upd), &info)
        }
        9 => {
            opname = "object_delete";
            let ks = if rng.chance(1, 4) { Vec::new() } else { vec![name_arg.clone(), gen::key(rng)] };
            let set: BTreeSet<&str> = ks.iter().map(|s| s.as_str()).collect();
            let info = || format!("object_delete({}, {:?})", ta.show(), ks);
            buf_op(ctx, opname, |o| jsonb::object_delete(a, &set, o), refops::object_delete(ta, &ks), &info)
        }
        10 => {
            opname = "object_pick";
            let ks = if rng.chance(1, 4) { Vec::new() } else { vec![name_arg.clone(), gen::key(rng)] };
            let set: BTreeSet<&str> = ks.iter().map(|s| s.as_str()).collect();
            let info = || format!("object_pick({}, {:?})", ta.show(), ks);
            buf_op(ctx, opname, |o| jsonb::object_pick(a, &set, o), refops::object_pick(ta, &ks), &info)
        }
        11 => {
            opname = "strip_nulls";
            let info = || format!("strip_nulls({})", ta.show());
            buf_op(ctx, opname, |o| jsonb::strip_nulls(a, o), Edit::Ok(refops::strip_nulls(ta)), &info)
        }
        12 => {
            opname = "build_array";
            let k = rng.below(4);
            let parts: Vec<&Live> = (0..k).map(|_| rng.pick(pool)).collect();
            let info = || format!("build_array({:?})", parts.iter().map(|p| p.tree.show()).collect::<Vec<_>>());
            buf_op(ctx, opname, |o| jsonb::build_array(parts.iter().map(|p| p.bytes.as_slice()), o), Edit::Ok(Tree::Arr(parts.iter().map(|p| p.tree.clone()).collect())), &info)
        }
        13 => {
            opname = "build_object";
            let k = rng.below(4);
            let parts: Vec<(String, &Live)> = (0..k).map(|_| (gen::key(rng), rng.pick(pool))).collect();
            let info = || format!("build_object({:?})", parts.iter().map(|(k, p)| format!("{:?}:{}", k, p.tree.show())).collect::<Vec<_>>());
            let exp = Tree::obj_from(parts.iter().map(|(k, p)| (k.clone(), p.tree.clone())).collect());
            buf_op(ctx, opname, |o| jsonb::build_object(parts.iter().map(|(k, p)| (k.as_str(), p.bytes.as_slice())), o), Edit::Ok(exp), &info)
        }
        14 => {
            opname = "get_by_index";
            let i = rng.below(len as usize + 1);
            let info = || format!("get_by_index({}, {})", ta.show(), i);
            opt_op(ctx, opname, guard(|| jsonb::get_by_index(a, i)), refops::get_by_index(ta, i), &info)
        }
        15 => {
            opname = "get_by_name";
            let ic = rng.bool();
            let info = || format!("get_by_name({}, {:?}, {})", ta.show(), name_arg, ic);
            opt_op(ctx, opname, guard(|| jsonb::get_by_name(a, &name_arg, ic)), refops::get_by_name(ta, &name_arg, ic), &info)
        }
        16 => {
            opname = "get_by_keypath";
            let kp = gen::keypath_for(ta, rng);
            let lp = lib_keypath(&kp);
            let info = || format!("get_by_keypath({}, {:?})", ta.show(), kp);
            opt_op(ctx, opname, guard(|| jsonb::get_by_keypath(a, lp.iter())), refops::get_by_keypath(ta, &kp), &info)
        }
        17 => {
            opname = "array_values";
            let info = || format!("array_values({})", ta.show());
            match (guard(|| jsonb::array_values(a)), ta) {
                (Err(p), _) => {
                    ctx.panic_violation(opname, &p, &info);
                    StepOut::Nothing
                }
                (Ok(Some(items)), Tree::Arr(v)) if items.len() == v.len() => StepOut::Docs(items.into_iter().zip(v.iter().cloned()).collect()),
                (Ok(None), t) if !matches!(t, Tree::Arr(_)) => StepOut::Nothing,
                _ => {
                    ctx.violation("array_values/shape", || info());
                    StepOut::Nothing
                }
            }
        }
        18 => {
            opname = "object_each";
            let info = || format!("object_each({})", ta.show());
            match (guard(|| jsonb::object_each(a)), ta) {
                (Err(p), _) => {
                    ctx.panic_violation(opname, &p, &info);
                    StepOut::Nothing
                }
                (Ok(Some(items)), Tree::Obj(v)) if items.len() == v.len() => StepOut::Docs(items.into_iter().map(|(_, b)| b).zip(v.iter().map(|(_, x)| x.clone())).collect()),
                (Ok(None), t) if !matches!(t, Tree::Obj(_)) => StepOut::Nothing,
                _ => {
                    ctx.violation("object_each/shape", || info());
                    StepOut::Nothing
                }
            }
        }
        19 => {
            opname = "object_keys";
            let info = || format!("object_keys({})", ta.show());
            let exp = if let Tree::Obj(v) = ta { Some(Tree::Arr(v.iter().map(|(k, _)| Tree::Str(k.clone())).collect())) } else { None };
            opt_op(ctx, opname, guard(|| jsonb::object_keys(a)), exp, &info)
        }
        20 => {
            opname = "array_distinct";
            let info = || format!("array_distinct({})", ta.show());
            buf_op(ctx, opname, |o| jsonb::array_distinct(a, o), Edit::Ok(refops::distinct(ta)), &info)
        }
        21 => {
            opname = "array_intersection";
            let info = || format!("array_intersection({}, {})", ta.show(), tb.show());
            buf_op(ctx, opname, |o| jsonb::array_intersection(a, b, o), Edit::Ok(refops::inter_except(ta, tb).0), &info)
        }
        22 => {
            opname = "array_except";
            let info = || format!("array_except({}, {})", ta.show(), tb.show());
            buf_op(ctx, opname, |o| jsonb::array_except(a, b, o), Edit::Ok(refops::inter_except(ta, tb).1), &info)
        }
        26 => {
            // a builder call that is cut short by a part that is not JSONB: its outcome is not
            // judged here, what matters is that the steps after it are unaffected
            opname = "hostile(build)";
            let bad: &[u8] = *rng.pick(&[&b"true"[..], b"\x20", b"", b"\x80\x00", b"\xc0\x00\x00\x01", b"[1]"]);
            let _ = guard(|| {
                let mut o = Vec::new();
                let _ = jsonb::build_array([a.as_slice(), b.as_slice(), bad, a.as_slice()], &mut o);
                let mut o2 = Vec::new();
                let _ = jsonb::build_object([("k", a.as_slice()), (name_arg.as_str(), b.as_slice()), ("z", bad)], &mut o2);
            });
            StepOut::Nothing
        }
        _ => {
            // path selection in one of the four modes
            let mode = rng.below(4);
            opname = ["select(All)", "select(First)", "select(Array)", "select(Mixed)"][mode];
            let pg = PathGen::new(jsonb_ta);
            let cfg = PathCfg { max_steps: 3, filters: true, big_indices: false };
            let p = loop {
                let p = pg.guided_path(rng, &cfg, jsonb_ta);
                if matches!(p, refpath::JPath::Steps(_)) {
                    break p;
                }
            };
            let text = refpath::render(&p, &refpath::PLAIN, rng);
            let info = || format!("{} path={:?} on {}", opname, text, jsonb_ta.show());
            // results are appended to buffers that still hold the results of earlier steps of
            // this chain (what a caller collecting rows does); the new items are what lies behind
            // the old end
            if shared.0.len() > 1 << 20 {
                shared.0.clear();
                shared.1.clear();
            }
            let (d0, o0) = (shared.0.len(), shared.1.len());
            let sel = match select_into(text.as_bytes(), jsonb_a, mode, &mut shared.0, &mut shared.1) {
                Sel::Ok(_) => {
                    if shared.0.len() < d0 || shared.1.len() < o0 || shared.1[o0..].iter().any(|x| (*x as usize) < d0) {
                        ctx.violation(&format!("{}/shared-buffer-not-appended", opname), || format!("data {} -> {} bytes, offsets {} -> {} entries ; {}", d0, shared.0.len(), o0, shared.1.len(), info()));
                        shared.0.clear();
                        shared.1.clear();
                        return (opname.to_string(), StepOut::Nothing);
                    }
                    Sel::Ok(Selected { data: shared.0[d0..].to_vec(), offsets: shared.1[o0..].iter().map(|x| x - d0 as u64).collect() })
                }
                other => {
                    shared.0.truncate(d0);
                    shared.1.truncate(o0);
                    other
                }
            };
            match (sel, refpath::eval(&p, jsonb_ta)) {
                (Sel::Panic(pn), _) => {
                    ctx.panic_violation(opname, &pn, &info);
                    StepOut::Nothing
                }
                (Sel::ParseErr, _) => {
                    note_parse_reject(ctx, &text);
                    StepOut::Nothing
                }
                (_, Outcome::Unspecified) | (_, Outcome::Bool(_)) => StepOut::Nothing,
                (Sel::Err(e), _) => {
                    ctx.violation(&format!("{}/err-on-valid", opname), || format!("{} ; {}", e, info()));
                    StepOut::Nothing
                }
                (Sel::Ok(s), Outcome::Items(items)) => {
                    // expected documents per mode
                    let exp: Vec<Tree> = match mode {
                        0 => items.clone(),
                        1 => items.iter().take(1).cloned().collect(),
                        2 => vec![Tree::Arr(items.clone())],
                        _ => {
                            if items.len() >= 2 {
                                vec![Tree::Arr(items.clone())]
                            } else {
                                items.clone()
                            }
                        }
                    };
                    match split_items(&s) {
                        Some(got) if got.len() == exp.len() => StepOut::Docs(got.into_iter().zip(exp).collect()),
                        _ => {
                            ctx.violation(&format!("{}/item-count-or-offsets", opname), || format!("{} expected {} item(s) ; {}", show_sel(&s), exp.len(), info()));
                            StepOut::Nothing
                        }
                    }
                }
            }
        }
    };
    (opname.to_string(), out)
}

pub fn run(ctx: &mut Ctx) {
    let n = ctx.budget(40_000, 1_000_000);
    for _ in 0..n {
        if !ctx.next_case() {
            return;
        }
        let mut rng = ctx.rng.fork();
        // pool of few documents so that results are re-fed many times
        let psize = rng.below(4) + 3;
        let mut pool: Vec<Live> = (0..psize)
            .map(|k| {
                let t = match k % 3 {
                    0 => gen::doc(&mut rng, &gen::DOC_SMALL),
                    1 => gen::doc(&mut rng, &gen::DOC_DEFAULT),
                    _ => gen::scalar(&mut rng, true),
                };
                Live { bytes: refcodec::encode(&t), tree: t }
            })
            .collect();
        if ctx.case_no % 97 == 5 && !ctx.miri {
            let t = gen::big_doc(&mut rng, false);
            pool.push(Live { bytes: refcodec::encode(&t), tree: t });
        }
        if ctx.case_no % 13 == 2 && !ctx.miri {
            // two wide objects over the same key set (more members than small-sort shortcuts cover)
            let n = 17 + rng.below(60);
            for _ in 0..2 {
                let mut members = Vec::new();
                for k in 0..n {
                    if rng.chance(4, 5) {
                        members.push((format!("k{:02}", k), gen::scalar(&mut rng, false)));
                    }
                }
                let t = Tree::obj_from(members);
                pool.push(Live { bytes: refcodec::encode(&t), tree: t });
            }
        }
        if ctx.case_no % 13 == 9 {
            // elements of different kinds that are stored as the same payload bytes (the number 65
            // is stored as the two bytes of the string "PA")
            let v = 0x20 + rng.below(0x5f) as u64;
            let twins = Tree::Arr(vec![Tree::Str(format!("P{}", v as u8 as char)), Tree::Num(crate::tree::Num::U(v)), Tree::Num(crate::tree::Num::U(0)), Tree::Str("\u{0}".into()), Tree::Num(crate::tree::Num::U(v)), Tree::Str(format!("P{}", v as u8 as char))]);
            pool.push(Live { bytes: refcodec::encode(&twins), tree: twins });
        }
        if ctx.case_no % 13 == 7 && !ctx.miri {
            // a long array and a short one holding some of its elements in another order,
            // some of them twice
            let n = 33 + rng.below(40);
            let long = Tree::Arr((0..n).map(|k| Tree::Num(crate::tree::Num::U(k as u64))).collect());
            let short = Tree::Arr((0..(3 + rng.below(8))).map(|_| if rng.chance(1, 6) { Tree::Str("x".into()) } else { Tree::Num(crate::tree::Num::U(rng.below(n) as u64)) }).collect());
            pool.push(Live { bytes: refcodec::encode(&long), tree: long });
            pool.push(Live { bytes: refcodec::encode(&short), tree: short });
        }
        let mut shared: (Vec<u8>, Vec<u64>) = (Vec::new(), Vec::new());
        let steps = rng.below(46) + 5;
        let mut history: Vec<String> = Vec::new();
        for step in 0..steps {
            let (opname, out) = one_step(ctx, &mut rng, &pool, &mut shared);
            ctx.count(&format!("op.{}", opname));
            ctx.count("steps");
            ctx.evals += 1;
            history.push(opname.clone());
            if let StepOut::Docs(docs) = out {
                for (bytes, tree) in docs.into_iter().take(3) {
                    let hist = history.clone();
                    let info = move || format!("step {} of history {:?}", step, hist);
                    let ok = ctx.check_doc(&format!("chain/{}", opname), &bytes, &tree, &info);
                    // the library's own decoder and encoder agree with the bytes as well
                    if ok {
                        match guard(|| jsonb::from_slice(&bytes).map(|v| v.to_vec())) {
                            Ok(Ok(re)) if re == bytes => {}
                            Ok(other) => ctx.violation(&format!("chain/{}/library-reencode-differs", opname), || format!("from_slice(..).to_vec() = {:?} for {} ; {}", other.map(|b| hex(&b)), hex(&bytes), info())),
                            Err(p) => ctx.panic_violation("from_slice(chain result)", &p, &info),
                        }
                    }
                    // feed back: the library's bytes when they were right, the reference encoding otherwise
                    let live = if ok { Live { bytes, tree } } else { Live { bytes: refcodec::encode(&tree), tree } };
                    if live.bytes.len() < 400_000 {
                        let slot = rng.below(pool.len());
                        if pool.len() < 8 && rng.bool() {
                            pool.push(live);
                        } else {
                            pool[slot] = live;
                        }
                    }
                }
            }
        }
        ctx.sample(|| format!("history {:?}", history));
        ctx.distinct(crate::prng::hash_bytes(format!("{:?}{}", history, pool[0].tree.show()).as_bytes()));
    }
}
