//! C09 — JSONPath syntax: every documented form parses as intended; printing is faithful.

use crate::gen::{self, PathCfg, PathGen};
use crate::monitor::{guard, Ctx};
use crate::prng::Rng;
use crate::refpath::{self, fromlib, Expr, JPath, Lit, Operand, RStyle, Step};
use crate::tree::{hex, lossy, Num, Tree};
use jsonb::jsonpath::parse_json_path;

/// features of a path that name the grammar corner it exercises (for signatures)
fn features(p: &JPath) -> Vec<&'static str> {
    let mut f: Vec<&'static str> = Vec::new();
    fn lit(l: &Lit, f: &mut Vec<&'static str>, left: bool) {
        match l {
            Lit::Str(s) if s.is_empty() => f.push("empty-string-literal"),
            Lit::Num(Num::F(_)) => f.push("float-literal"),
            Lit::Num(Num::I(v)) if *v < 0 && left => f.push("negative-literal-on-left"),
            _ => {}
        }
    }
    fn op(o: &Operand, f: &mut Vec<&'static str>, left: bool) {
        match o {
            Operand::Lit(l) => lit(l, f, left),
            Operand::Path(_, s) => steps(s, f),
        }
    }
    fn ex(e: &Expr, f: &mut Vec<&'static str>) {
        match e {
            Expr::Cmp(_, l, r) => {
                if let Operand::Lit(Lit::Num(Num::F(b))) = l {
                    if f64::from_bits(*b).is_sign_negative() {
                        f.push("negative-literal-on-left");
                    }
                }
                op(l, f, true);
                op(r, f, false);
            }
            Expr::And(l, r) | Expr::Or(l, r) => {
                ex(l, f);
                ex(r, f);
            }
            Expr::Exists(_, s) => steps(s, f),
            Expr::Arith(_) => f.push("arith"),
            Expr::ArithBin(_, l, r) => {
                f.push("arith");
                op(l, f, false);
                op(r, f, false);
            }
            Expr::ArithUn(_, o) => {
                f.push("arith");
                op(o, f, false);
            }
        }
    }
    fn steps(s: &[Step], f: &mut Vec<&'static str>) {
        for st in s {
            match st {
                Step::Filter(e) => ex(e, f),
                Step::Name(n, _) if n.is_empty() => f.push("empty-name"),
                _ => {}
            }
        }
    }
    match p {
        JPath::Steps(s) => steps(s, &mut f),
        JPath::Predicate(e) => ex(e, &mut f),
    }
    f.sort();
    f.dedup();
    f
}

fn has_empty_name(p: &JPath) -> bool {
    features(p).contains(&"empty-name")
}

/// a literal beyond the double range reads as an infinity, which has no documented spelling:
/// printing such a path is not judged
fn has_nonfinite_literal(p: &JPath) -> bool {
    fn op(o: &Operand) -> bool {
        match o {
            Operand::Lit(Lit::Num(n)) => !n.is_finite(),
            Operand::Lit(_) => false,
            Operand::Path(_, s) => steps(s),
        }
    }
    fn ex(e: &Expr) -> bool {
        match e {
            Expr::Cmp(_, l, r) | Expr::ArithBin(_, l, r) => op(l) || op(r),
            Expr::ArithUn(_, o) => op(o),
            Expr::And(l, r) | Expr::Or(l, r) => ex(l) || ex(r),
            Expr::Exists(_, s) => steps(s),
            Expr::Arith(_) => false,
        }
    }
    fn steps(s: &[Step]) -> bool {
        s.iter().any(|st| matches!(st, Step::Filter(e) if ex(e)))
    }
    match p {
        JPath::Steps(s) => steps(s),
        JPath::Predicate(e) => ex(e),
    }
}

fn names_need_no_quoting(p: &JPath) -> bool {
    fn lit_ok(l: &Lit) -> bool {
        match l {
            Lit::Str(s) => !s.chars().any(|c| c == '"' || c == '\\' || (c as u32) < 0x20),
            _ => true,
        }
    }
    fn op(o: &Operand) -> bool {
        match o {
            Operand::Lit(l) => lit_ok(l),
            Operand::Path(_, s) => steps(s),
        }
    }
    fn ex(e: &Expr) -> bool {
        match e {
            Expr::Cmp(_, l, r) => op(l) && op(r),
            Expr::And(l, r) | Expr::Or(l, r) => ex(l) && ex(r),
            Expr::Exists(_, s) => steps(s),
            Expr::Arith(_) => true,
            Expr::ArithBin(_, l, r) => op(l) && op(r),
            Expr::ArithUn(_, o) => op(o),
        }
    }
    fn steps(s: &[Step]) -> bool {
        s.iter().all(|st| match st {
            Step::Name(n, _) => refpath::name_is_raw_safe(n),
            Step::Filter(e) => ex(e),
            _ => true,
        })
    }
    match p {
        JPath::Steps(s) => steps(s),
        JPath::Predicate(e) => ex(e),
    }
}

pub fn check_intended(ctx: &mut Ctx, path: &JPath, text: &str, style: &str) {
    ctx.evals += 1;
    ctx.count(&format!("rendering.{}", style));
    let info = || format!("path text={:?} intended={:?}", text, path);
    let feats = features(path);
    let tag = if feats.is_empty() { "plain".to_string() } else { feats.join("+") };
    let r = guard(|| match parse_json_path(text.as_bytes()) {
        Ok(p) => {
            let conv = fromlib::path(&p);
            let printed = format!("{}", p);
            let reparsed_same = parse_json_path(printed.as_bytes()).map(|q| q == p);
            Ok((conv, printed, reparsed_same.map_err(|e| format!("{:?}", e))))
        }
        Err(e) => Err(format!("{:?}", e)),
    });
    match r {
        Err(p) => ctx.panic_violation("parse_json_path", &p, &info),
        Ok(Err(e)) => ctx.violation(&format!("parse/rejects-documented-form/{}", tag), || format!("rejected with {} ; {}", e, info())),
        Ok(Ok((conv, printed, reparsed))) => {
            match conv {
                Err(e) => ctx.violation(&format!("parse/unexpected-structure/{}", tag), || format!("{} ; {}", e, info())),
                Ok(got) => {
                    if !refpath::same_structure(&got, path) {
                        ctx.violation(&format!("parse/wrong-structure/{}", tag), || format!("parsed as {:?} ; {}", got, info()));
                    }
                }
            }
            if names_need_no_quoting(path) {
                ctx.count("print-parse.roundtrips");
                match reparsed {
                    Ok(true) => {}
                    Ok(false) => ctx.violation(&format!("print/reparse-differs/{}", tag), || format!("printed {:?} parses to a different structure ; {}", printed, info())),
                    Err(e) => ctx.violation(&format!("print/reparse-rejected/{}", tag), || format!("printed {:?} is rejected ({}) ; {}", printed, e, info())),
                }
            }
        }
    }
    ctx.distinct(crate::prng::hash_bytes(text.as_bytes()));
}

pub fn totality(ctx: &mut Ctx, raw: &[u8], class: &str, must_reject: bool) {
    ctx.evals += 1;
    ctx.count(&format!("raw.{}", class));
    let info = || format!("class={} input={:?} bytes={}", class, lossy(raw), hex(raw));
    match guard(|| {
        parse_json_path(raw)
            .map(|p| {
                // whatever is accepted must print to something that parses back to the same structure
                // when nothing in it needs quoting or escaping
                let conv = fromlib::path(&p).ok();
                let printed = format!("{}", p);
                let same = parse_json_path(printed.as_bytes()).map(|q| q == p).unwrap_or(false);
                (format!("{:?}", p), conv, printed, same)
            })
            .map_err(|_| ())
    }) {
        Err(p) => ctx.panic_violation("parse_json_path(raw)", &p, &info),
        Ok(Ok((ast, conv, printed, same))) => {
            if must_reject {
                ctx.violation("parse/accepts-leftover", || format!("accepted as {} ; {}", ast, info()));
            }
            if let Some(c) = conv {
                if names_need_no_quoting(&c) && !refpath::has_arith(&c) && !has_empty_name(&c) && !has_nonfinite_literal(&c) {
                    ctx.count("print-parse.roundtrips(raw)");
                    if !same {
                        ctx.violation("print/reparse-differs/raw-input", || format!("printed {:?} does not parse back to the same structure ; {}", printed, info()));
                    }
                }
            }
        }
        Ok(Err(())) => {}
    }
}

const SOUP: &[&str] = &[
    "$", "@", ".", ":", "[", "]", "(", ")", "?", "*", ".*", "[*]", "\"", "\"a\"", "\"a", "a", "last", "to", "0", "-1", "1.5", "==", "!=", "<>", "<", ">=", "&&", "||", "exists", "exists(", "null", "true",
    " ", ",", "\\", "\\u", "\\u00", "\\u{41}", "\\uD83D", "'", "+", "-", "%", "/", "{", "}", "\u{e9}", "\u{1F48E}",
];

pub fn raw_inputs(ctx: &mut Ctx, rng: &mut Rng, valid: &str) {
    // token soups
    let n = rng.below(7) + 1;
    let mut s = String::new();
    for _ in 0..n {
        s.push_str(*rng.pick(SOUP));
    }
    totality(ctx, s.as_bytes(), "token-soup", false);
    // single-byte corruptions of a valid path
    let mut m = valid.as_bytes().to_vec();
    if !m.is_empty() {
        let i = rng.below(m.len());
        match rng.below(4) {
            0 => {
                m.remove(i);
            }
            1 => m[i] = *rng.pick(b"\"\\.[]()?$@ \xff\x00*'"),
            2 => m.insert(i, *rng.pick(b"\"\\.[]()?$@ \xff\x00*'")),
            _ => m.truncate(i),
        }
        totality(ctx, &m, "corruption", false);
    }
    // unterminated quotes in every position a quoted name / string may start
    for pre in ["$.", "$:", "$[", "$.a.", "$ ? (@ == ", "$.a ? (@.b == ", "", "exists($.", "$.a == "] {
        let body = *rng.pick(&["abc", "", "a\\", "a\\\"", "\\u12", "a b", "\\u{12", "\u{1F48E}"]);
        let t = format!("{}\"{}", pre, body);
        totality(ctx, t.as_bytes(), "unterminated-quote", true);
    }
    // leftovers after a complete path
    for suf in [")", "]", "}", " )", " ]", "\"", " $", "@", " 5"] {
        let t = format!("{}{}", valid, suf);
        // a closing bracket / quote / second root after a complete path cannot continue it
        let must = matches!(suf.trim(), ")" | "]" | "}" | "\"");
        totality(ctx, t.as_bytes(), "leftover", must);
    }
    // index forms with extreme or oddly signed integers (must not panic; accepted ones must print faithfully)
    let n = *rng.pick(&["2147483647", "-2147483648", "2147483648", "-2147483649", "99999999999", "-0", "+5", "-1", "0", "4294967296", "18446744073709551616"]);
    let m = *rng.pick(&["2147483647", "-2147483648", "-2147483647", "2147483648", "1", "-1", "0"]);
    for t in [
        format!("$[{}]", n),
        format!("$[last - {}]", m),
        format!("$[last + {}]", m),
        format!("$[last-{}]", m),
        format!("$[{} to {}]", n, m),
        format!("$[last - {} to last + {}]", m, m),
        format!("$.a[{}, last - {}] ? (@ > {})", n, m, n),
    ] {
        totality(ctx, t.as_bytes(), "index-extremes", false);
    }
    // random bytes
    let l = rng.below(10);
    let raw: Vec<u8> = (0..l).map(|_| rng.next_u64() as u8).collect();
    totality(ctx, &raw, "random-bytes", false);
    // escapes inside unquoted names, and every way of cutting such a path short: a value or an
    // error, never a panic
    {
        let base = *rng.pick(&["$.a\\u{0041}b", "$.store.name\\u{00e9}", "$.c\\u{12}x", "name\\u{00e9}", "$.x:k\\u00e9", "$.a\\u0041 ? (@.b\\u{42} == 1)", "$.\\u{1F48E}", "$.a\\\\b"]);
        let b = base.as_bytes();
        for cut in (1..=b.len()).rev().take(12) {
            totality(ctx, &b[..cut], "escape-in-unquoted-name", false);
        }
    }
    // `@` has no meaning outside a filter, parenthesised or not
    for t in ["@ > 10", "(@ > 10)", "$.a == 1 && (@.b == 2 || $.c == 3)", "(@.a == 1)", "((@))"] {
        totality(ctx, t.as_bytes(), "current-item-outside-filter", true);
    }
    // names and string literals are strings: input that is not UTF-8 cannot be a path
    {
        let mut m = valid.as_bytes().to_vec();
        let bad: &[u8] = *rng.pick(&[&b"\xff"[..], b"\xc3", b"\xed\xa0\x80", b"\xc0\x80", b"\xf8\x88\x80\x80\x80", b"\xe2\x82", b"\x80"]);
        let at = rng.below(m.len() + 1);
        let tail = m.split_off(at);
        m.extend_from_slice(bad);
        m.extend_from_slice(&tail);
        if std::str::from_utf8(&m).is_err() {
            totality(ctx, &m, "invalid-utf8", true);
        }
    }
}

pub fn run(ctx: &mut Ctx) {
    let n = if ctx.miri { ctx.miri_cases(8) } else { ctx.budget(500_000, 10_000_000) };
    let cfg = PathCfg { max_steps: 4, filters: true, big_indices: true };
    // fixed documented forms from the README / rustdoc (sanity anchors)
    if ctx.shard == 0 {
        ctx.next_case();
        for t in ["$", "$.*", "$[*]", "$.a", "$:a", "$[\"a\"]", "$.\"a b\"", "$[0]", "$[last]", "$[last-1]", "$[last - 1]", "$[0,1, last - 2]", "$[0,1 to last-1]", "$[1 TO Last]", "$.a ? (@ == 10)", "$.a?(@.b > 10).c", "$ > 1", "$.a > $.b", "$.a ? (exists(@.b))"] {
            totality(ctx, t.as_bytes(), "documented-anchor", false);
            if let Ok(Err(())) = guard(|| parse_json_path(t.as_bytes()).map(|_| ()).map_err(|_| ())) {
                ctx.violation("parse/rejects-documented-anchor", || format!("{:?}", t));
            }
        }
    }
    for i in 0..n {
        if !ctx.next_case() {
            return;
        }
        let mut rng = ctx.rng.fork();
        let doc = gen::doc(&mut rng, &gen::DOC_SMALL);
        let pg = PathGen::new(&doc);
        let mut path = if i % 8 == 7 { arith_path(&pg, &mut rng) } else { pg.path(&mut rng, &cfg) };
        strip_empty_names(&mut path);
        let styles = [
            ("plain", RStyle { spacing: false, kwcase: false, quoting: false, esc: false }),
            ("spacing+kwcase", RStyle { spacing: true, kwcase: true, quoting: false, esc: false }),
            ("spacing+quoting+escapes", RStyle { spacing: true, kwcase: false, quoting: true, esc: true }),
        ];
        let mut plain_text = String::new();
        for (name, st) in styles.iter() {
            let text = refpath::render(&path, st, &mut rng);
            if *name == "plain" {
                plain_text = text.clone();
            }
            check_intended(ctx, &path, &text, name);
        }
        ctx.sample(|| plain_text.clone());
        if i % 499 == 7 {
            // a quoted name and a string literal with hundreds of escapes / hundreds of bytes
            let n = *rng.pick(&[255usize, 256, 257, 300, 512]);
            let esc: String = (0..n).map(|_| *rng.pick(&['\n', '"', '\\', '\t', '\u{1}'])).collect();
            let long: String = (0..n).map(|k| (b'a' + (k % 26) as u8) as char).collect();
            for (nm, lit) in [(esc.clone(), long.clone()), (long, esc)] {
                let p = JPath::Steps(vec![
                    Step::Name(nm, refpath::NameStyle::Bracket),
                    Step::Filter(Box::new(Expr::Cmp(refpath::Cmp::Eq, Operand::Path(false, vec![]), Operand::Lit(Lit::Str(lit))))),
                ]);
                for (name, st) in styles.iter() {
                    let text = refpath::render(&p, st, &mut rng);
                    check_intended(ctx, &p, &text, name);
                }
            }
        }
        if i % 2 == 0 {
            raw_inputs(ctx, &mut rng, &plain_text);
        }
    }
}

/// arithmetic forms of the golden file: a stand-alone binary or unary arithmetic expression over
/// `$` paths and non-negative number literals, or one inside a filter over `@` paths
fn arith_path(pg: &PathGen, rng: &mut Rng) -> JPath {
    let inside_filter = rng.chance(1, 3);
    let cfg = PathCfg { max_steps: 2, filters: false, big_indices: false };
    let mut operand = |rng: &mut Rng| -> Operand {
        if rng.chance(1, 3) {
            // unsigned literals only: a sign next to an arithmetic operator is a different expression
            Operand::Lit(Lit::Num(Num::U(rng.below(1000) as u64)))
        } else {
            let mut steps = pg.steps(rng, &cfg, false, 3);
            if steps.is_empty() {
                steps.push(Step::Name("a".into(), refpath::NameStyle::Dot));
            }
            // a path ending in `.*` followed by an operator is fine; one ending in a quoted name too
            Operand::Path(!inside_filter, steps)
        }
    };
    let e = if rng.chance(1, 5) {
        let o = loop {
            let o = operand(rng);
            if matches!(o, Operand::Path(..)) {
                break o;
            }
        };
        Expr::ArithUn(*rng.pick(&['+', '-']), o)
    } else {
        let l = operand(rng);
        let r = operand(rng);
        Expr::ArithBin(*rng.pick(&['+', '-', '*', '/', '%']), l, r)
    };
    if inside_filter {
        JPath::Steps(vec![Step::BracketWild, Step::Filter(Box::new(e))])
    } else {
        JPath::Predicate(e)
    }
}

/// the empty *name* is not a documented form (the empty string *literal* is): replace it
fn strip_empty_names(p: &mut JPath) {
    fn ex(e: &mut Expr) {
        match e {
            Expr::Cmp(_, l, r) => {
                op(l);
                op(r);
            }
            Expr::And(l, r) | Expr::Or(l, r) => {
                ex(l);
                ex(r);
            }
            Expr::Exists(_, s) => steps(s),
            Expr::Arith(_) => {}
            Expr::ArithBin(_, l, r) => {
                op(l);
                op(r);
            }
            Expr::ArithUn(_, o) => op(o),
        }
    }
    fn op(o: &mut Operand) {
        if let Operand::Path(_, s) = o {
            steps(s)
        }
    }
    fn steps(s: &mut Vec<Step>) {
        for st in s.iter_mut() {
            match st {
                Step::Name(n, _) if n.is_empty() => *n = "e".to_string(),
                Step::Filter(e) => ex(e),
                _ => {}
            }
        }
    }
    match p {
        JPath::Steps(s) => steps(s),
        JPath::Predicate(e) => ex(e),
    }
}
