//! C06 — editing functions produce exactly the document the edit denotes.

use super::c05::lib_keypath;
use crate::gen;
use crate::monitor::{append_only, Ctx};
use crate::prng::Rng;
use crate::refcodec;
use crate::refops::{self, Edit, KP};
use crate::tree::{hex, Tree};
use std::collections::BTreeSet;

pub const PREFILL: &[u8] = &[0xA5, 0x40, 0, 0, 2, 0x10, 0, 0, 1, 0xEE, 0x20, 0x80];

/// compare an observed editing outcome with the reference
pub fn judge(ctx: &mut Ctx, what: &str, got: Option<Result<Vec<u8>, String>>, exp: &Edit, pinned_variant: bool, info: &dyn Fn() -> String) -> Option<Vec<u8>> {
    ctx.count(what);
    match (got, exp) {
        (None, _) => None, // panic already reported
        (Some(Ok(bytes)), Edit::Ok(t)) => {
            if ctx.check_doc(what, &bytes, t, info) {
                Some(bytes)
            } else {
                None
            }
        }
        (Some(Ok(bytes)), Edit::Err(e)) => {
            ctx.violation(&format!("{}/ok-expected-documented-error", what), || format!("returned Ok({}) where the documented error {} is due ; {}", hex(&bytes), e, info()));
            None
        }
        (Some(Err(e)), Edit::Ok(t)) => {
            ctx.violation(&format!("{}/err-on-valid", what), || format!("returned Err({}) expected {} ; {}", e, t.show(), info()));
            None
        }
        (Some(Err(e)), Edit::Err(exp_e)) => {
            if pinned_variant && e != *exp_e {
                ctx.violation(&format!("{}/wrong-error-variant", what), || format!("Err({}) expected Err({}) ; {}", e, exp_e, info()));
            }
            None
        }
    }
}

fn keyset(t: &Tree, rng: &mut Rng) -> Vec<String> {
    let mut ks: Vec<String> = Vec::new();
    if let Tree::Obj(v) = t {
        for (k, _) in v {
            if rng.bool() {
                ks.push(k.clone());
            }
        }
    }
    if rng.chance(1, 3) {
        ks.push(gen::key(rng));
    }
    if rng.chance(1, 6) {
        ks.push(String::new());
    }
    ks.sort();
    ks.dedup();
    ks
}

pub fn positions(len: usize, rng: &mut Rng, all: bool) -> Vec<i32> {
    let n = len as i32;
    let mut v: Vec<i32> = Vec::new();
    if all && n <= 600 {
        v.extend((-n - 2)..=(n + 2));
    } else {
        for _ in 0..4 {
            v.push(rng.range((-n - 2) as i64, (n + 2) as i64) as i32);
        }
    }
    v.extend([i32::MAX, i32::MAX - 1, i32::MIN + 1, i32::MIN]);
    v
}

pub fn check_doc_edits(ctx: &mut Ctx, t: &Tree, other: &Tree, rng: &mut Rng, all_positions: bool) {
    let enc = refcodec::encode(t);
    let oenc = refcodec::encode(other);
    let info = || format!("doc={} bytes={}", t.show(), hex(&enc));

    // concat both ways
    for (a, b, ea, eb) in [(t, other, &enc, &oenc), (other, t, &oenc, &enc)] {
        let i2 = || format!("left={} right={}", a.show(), b.show());
        let got = append_only(ctx, "concat", PREFILL, &|buf| jsonb::concat(ea, eb, buf), &i2);
        judge(ctx, "concat", got, &Edit::Ok(refops::concat(a, b)), false, &i2);
    }

    // delete_by_name
    let mut names: Vec<String> = vec!["".into(), gen::key(rng)];
    match t {
        Tree::Obj(v) => names.extend(v.iter().map(|(k, _)| k.clone()).take(6)),
        Tree::Arr(v) => {
            for x in v.iter().take(8) {
                if let Tree::Str(s) = x {
                    names.push(s.clone());
                }
            }
        }
        _ => {}
    }
    for name in names {
        let i2 = || format!("name={:?} ; {}", name, info());
        let got = append_only(ctx, "delete_by_name", PREFILL, &|buf| jsonb::delete_by_name(&enc, &name, buf), &i2);
        judge(ctx, "delete_by_name", got, &refops::delete_by_name(t, &name), true, &i2);
    }

    // delete_by_index / array_insert at all positions
    let len = if let Tree::Arr(v) = t { v.len() } else { 1 };
    for pos in positions(len, rng, all_positions) {
        let i2 = || format!("index={} ; {}", pos, info());
        let got = append_only(ctx, "delete_by_index", PREFILL, &|buf| jsonb::delete_by_index(&enc, pos, buf), &i2);
        judge(ctx, "delete_by_index", got, &refops::delete_by_index(t, pos), true, &i2);
        let i3 = || format!("pos={} new={} ; {}", pos, other.show(), info());
        let got = append_only(ctx, "array_insert", PREFILL, &|buf| jsonb::array_insert(&enc, pos, &oenc, buf), &i3);
        judge(ctx, "array_insert", got, &Edit::Ok(refops::array_insert(t, pos, other)), false, &i3);
    }

    // delete_by_keypath
    let mut paths: Vec<Vec<KP>> = vec![vec![]];
    for _ in 0..8 {
        paths.push(gen::keypath_for(t, rng));
    }
    for p in paths {
        let lp = lib_keypath(&p);
        let i2 = || format!("keypath={:?} ; {}", p, info());
        let got = append_only(ctx, "delete_by_keypath", PREFILL, &|buf| jsonb::delete_by_keypath(&enc, lp.iter(), buf), &i2);
        judge(ctx, "delete_by_keypath", got, &refops::delete_by_keypath(t, &p), false, &i2);
    }

    // object_insert
    let mut keys: Vec<String> = vec![gen::key(rng), "".into()];
    if let Tree::Obj(v) = t {
        keys.extend(v.iter().map(|(k, _)| k.clone()).take(5));
        // a key sorting before / between / after existing ones
        if let Some((k, _)) = v.last() {
            keys.push(format!("{}z", k));
        }
    }
    for k in keys {
        for update in [false, true] {
            let i2 = || format!("key={:?} new={} update={} ; {}", k, other.show(), update, info());
            let got = append_only(ctx, "object_insert", PREFILL, &|buf| jsonb::object_insert(&enc, &k, &oenc, update, buf), &i2);
            judge(ctx, "object_insert", got, &refops::object_insert(t, &k, other, update), false, &i2);
        }
    }

    // object_delete / object_pick
    for _ in 0..3 {
        let ks = keyset(t, rng);
        let set: BTreeSet<&str> = ks.iter().map(|s| s.as_str()).collect();
        let i2 = || format!("keys={:?} ; {}", ks, info());
        let got = append_only(ctx, "object_delete", PREFILL, &|buf| jsonb::object_delete(&enc, &set, buf), &i2);
        judge(ctx, "object_delete", got, &refops::object_delete(t, &ks), false, &i2);
        let got = append_only(ctx, "object_pick", PREFILL, &|buf| jsonb::object_pick(&enc, &set, buf), &i2);
        judge(ctx, "object_pick", got, &refops::object_pick(t, &ks), false, &i2);
    }

    // strip_nulls
    let got = append_only(ctx, "strip_nulls", PREFILL, &|buf| jsonb::strip_nulls(&enc, buf), &info);
    judge(ctx, "strip_nulls", got, &Edit::Ok(refops::strip_nulls(t)), false, &info);

    // build_array / build_object from parts
    let parts: Vec<Tree> = match t {
        Tree::Arr(v) => v.clone(),
        Tree::Obj(v) => v.iter().map(|(_, x)| x.clone()).collect(),
        x => vec![x.clone(), other.clone()],
    };
    let part_bytes: Vec<Vec<u8>> = parts.iter().map(refcodec::encode).collect();
    let i2 = || format!("items={:?}", parts.iter().map(|p| p.show()).collect::<Vec<_>>());
    let got = append_only(ctx, "build_array", PREFILL, &|buf| jsonb::build_array(part_bytes.iter().map(|b| b.as_slice()), buf), &i2);
    judge(ctx, "build_array", got, &Edit::Ok(Tree::Arr(parts.clone())), false, &i2);

    // build_object: keys given in arbitrary order, possibly duplicated
    let mut pairs: Vec<(String, Tree)> = match t {
        Tree::Obj(v) => v.clone(),
        _ => parts.iter().cloned().map(|p| (gen::key(rng), p)).collect(),
    };
    if pairs.len() > 1 && rng.bool() {
        let i = rng.below(pairs.len());
        let j = rng.below(pairs.len());
        pairs.swap(i, j);
    }
    if !pairs.is_empty() && rng.chance(1, 4) {
        let d = (pairs[0].0.clone(), other.clone());
        pairs.push(d);
    }
    let pb: Vec<(String, Vec<u8>)> = pairs.iter().map(|(k, v)| (k.clone(), refcodec::encode(v))).collect();
    let i3 = || format!("pairs={:?}", pairs.iter().map(|(k, p)| format!("{:?}:{}", k, p.show())).collect::<Vec<_>>());
    let got = append_only(ctx, "build_object", PREFILL, &|buf| jsonb::build_object(pb.iter().map(|(k, b)| (k.as_str(), b.as_slice())), buf), &i3);
    let sorted_unique = pairs.windows(2).all(|w| w[0].0.as_bytes() < w[1].0.as_bytes());
    let what = if sorted_unique { "build_object" } else { "build_object(unsorted-or-duplicate-keys)" };
    judge(ctx, what, got, &Edit::Ok(Tree::obj_from(pairs.clone())), false, &i3);

    ctx.distinct(crate::prng::mix(t.hash64(), other.hash64() ^ 0x6));
}

pub fn run(ctx: &mut Ctx) {
    let small = gen::enumerate_small(if ctx.miri { 1 } else { 3 });
    for (i, t) in small.iter().enumerate() {
        if i % ctx.nshards != ctx.shard || ctx.miri {
            continue;
        }
        if !ctx.next_case() {
            return;
        }
        let mut rng = ctx.rng.fork();
        let other = rng.pick(&small).clone();
        check_doc_edits(ctx, t, &other, &mut rng, true);
    }
    ctx.exhaustive.insert("small_scope(<=3 nodes) x all positions -len-2..len+2 and i32 extremes".into(), !ctx.miri);
    if ctx.shard == 0 && ctx.tier == crate::monitor::Tier::Thorough && !ctx.miri {
        ctx.next_case();
        ctx.count("huge_payload_docs");
        let mut rng = ctx.rng.fork();
        check_doc_edits(ctx, &gen::huge_payload_doc(), &Tree::Str("x".into()), &mut rng, false);
    }
    let mon = super::routes::Monitor::new(super::routes::EDITORS);
    let n = if ctx.miri { ctx.miri_cases(2) } else { ctx.budget(250_000, 5_000_000) };
    for i in 0..n {
        if !ctx.next_case() {
            return;
        }
        let mut rng = ctx.rng.fork();
        let t = match i % 5 {
            _ if i % 997 == 3 && !ctx.miri => {
                // nesting beyond 255 levels with a null-valued member at the bottom
                let leaf = Tree::Obj(vec![("x".into(), Tree::Null), ("y".into(), Tree::Arr(vec![Tree::Null, Tree::Obj(vec![("n".into(), Tree::Null)])]))]);
                gen::deep(*rng.pick(&[200usize, 255, 256, 257, 300, 400]), rng.below(3) as u8, leaf)
            }
            _ if i % 8009 == 7 && !ctx.miri => gen::big_doc(&mut rng, ctx.tier == crate::monitor::Tier::Thorough && i % 5 == 0),
            0 => gen::doc(&mut rng, &gen::DocCfg { max_depth: 6, max_fan: 4, nonfinite: true, container_p: 6 }),
            1 => gen::scalar(&mut rng, true),
            _ => gen::doc(&mut rng, &gen::DOC_DEFAULT),
        };
        let other = if rng.chance(1, 3) { gen::scalar(&mut rng, true) } else { gen::doc(&mut rng, &gen::DOC_SMALL) };
        check_doc_edits(ctx, &t, &other, &mut rng, i % 4 == 0);
        if i % 3 == 1 && t.nodes() < 300 {
            let args = super::routes::plain_args(&t, &mut rng);
            mon.check(ctx, &t, &other, &args, &mut rng);
        }
        ctx.sample(|| format!("doc={} other={}", t.show(), other.show()));
    }
}
