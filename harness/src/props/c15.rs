//! C15 — selection modes and path predicates are mutually consistent (relations between the
//! library's own answers; no model involved).

use super::c08::gen_doc;
use super::paths::*;
use crate::gen::{PathCfg, PathGen};
use crate::monitor::{guard, Ctx};
use crate::refcodec;
use crate::refpath::{self, JPath};
use crate::tree::{hex, Tree};
use jsonb::jsonpath::parse_json_path;

fn conv(which: usize, text: &[u8], doc: &[u8]) -> Result<Option<Result<Selected, String>>, crate::monitor::Panicked> {
    guard(|| {
        let p = parse_json_path(text).ok()?;
        let mut data = Vec::new();
        let mut offsets = Vec::new();
        let r = match which {
            0 => jsonb::get_by_path(doc, p, &mut data, &mut offsets),
            1 => jsonb::get_by_path_first(doc, p, &mut data, &mut offsets),
            _ => jsonb::get_by_path_array(doc, p, &mut data, &mut offsets),
        };
        Some(r.map(|_| Selected { data, offsets }).map_err(|e| format!("{:?}", e)))
    })
}

pub fn check(ctx: &mut Ctx, doc: &Tree, path: &JPath, text: &str) {
    let enc = refcodec::encode(doc);
    let info = || format!("path={:?} doc={} bytes={}", text, doc.show(), hex(&enc));
    ctx.count("path-doc pairs");
    ctx.evals += 1;
    let mut res: Vec<Selected> = Vec::new();
    for m in 0..4 {
        match select(text.as_bytes(), &enc, m) {
            Sel::ParseErr => {
                note_parse_reject(ctx, text);
                return;
            }
            Sel::Panic(p) => {
                ctx.panic_violation(&format!("select({})", MODE_NAMES[m]), &p, &info);
                return;
            }
            Sel::Err(e) => {
                if !refpath::has_arith(path) {
                    ctx.violation("select/err-on-valid", || format!("mode {} Err({}) ; {}", MODE_NAMES[m], e, info()));
                }
                return;
            }
            Sel::Ok(s) => res.push(s),
        }
    }
    // the same four selections appended one after the other to the same buffers (a caller
    // collecting rows), starting with a different mode each time and, in the second pass, with
    // bytes of the caller's own written in between (so that the last offset is not the length of
    // the data): each appended part, delimited by its own offsets, is the fresh result
    // (documents of tens of thousands of elements get the plain relations only: the extra passes
    // multiply their cost without adding kinds of behaviour)
    if ctx.case_no % 2 == 0 && enc.len() < 100_000 {
        let (mut data, mut offs): (Vec<u8>, Vec<u64>) = (Vec::new(), Vec::new());
        let first = ((ctx.case_no / 2) % 4) as usize;
        for round in 0..2 {
            for k in 0..4 {
                let m = (first + k) % 4;
                if round == 1 {
                    data.extend_from_slice(&[0x5A, 0x80, 0][..1 + (k + first) % 3]);
                }
                let (d0, o0) = (data.len(), offs.len());
                if let Sel::Ok(_) = select_into(text.as_bytes(), &enc, m, &mut data, &mut offs) {
                    let ok = data.len() >= d0 && offs.len() >= o0 && data[d0..] == res[m].data[..] && offs[o0..].iter().map(|x| x.wrapping_sub(d0 as u64)).collect::<Vec<u64>>() == res[m].offsets;
                    if !ok {
                        ctx.violation("shared-buffers/appended-part-differs-from-fresh-result", || format!("mode {} (pass {}): buffers had {} bytes / {} offsets; appended {} offsets {:?} ; fresh result {} ; {}", MODE_NAMES[m], round, d0, o0, hex(&data[d0.min(data.len())..]), &offs[o0.min(offs.len())..], show_sel(&res[m]), info()));
                        return;
                    }
                }
            }
        }
    }
    let ex = match exists(text.as_bytes(), &enc) {
        Ok(Some(Ok(b))) => b,
        Ok(_) => {
            ctx.violation("exists/err-on-valid", || info());
            return;
        }
        Err(p) => {
            ctx.panic_violation("exists", &p, &info);
            return;
        }
    };
    let is_pred = matches!(path, JPath::Predicate(_));
    if is_pred {
        // every mode returns the single boolean that path_match reports, existence is true
        let pm = match predicate_match(text.as_bytes(), &enc) {
            Ok(Some(Ok(b))) => b,
            Ok(_) => {
                ctx.violation("predicate_match/err-on-valid", || info());
                return;
            }
            Err(p) => {
                ctx.panic_violation("predicate_match", &p, &info);
                return;
            }
        };
        let want = refcodec::encode(&Tree::Bool(pm));
        for m in 0..4 {
            if res[m].data != want {
                ctx.violation("predicate/mode-differs-from-path_match", || format!("mode {} gives {} path_match={} ; {}", MODE_NAMES[m], show_sel(&res[m]), pm, info()));
            }
        }
        if !ex {
            ctx.violation("predicate/exists-false", || info());
        }
        // convenience: path_match / path_exists
        match guard(|| {
            let p1 = parse_json_path(text.as_bytes()).ok()?;
            let p2 = parse_json_path(text.as_bytes()).ok()?;
            Some((jsonb::path_match(&enc, p1).map_err(|e| format!("{:?}", e)), jsonb::path_exists(&enc, p2).map_err(|e| format!("{:?}", e))))
        }) {
            Err(p) => ctx.panic_violation("path_match", &p, &info),
            Ok(Some((m, e))) => {
                if m != Ok(pm) {
                    ctx.violation("path_match/differs-from-selector", || format!("{:?} vs {} ; {}", m, pm, info()));
                }
                if e != Ok(true) {
                    ctx.violation("path_exists/predicate-not-true", || format!("{:?} ; {}", e, info()));
                }
            }
            Ok(None) => {}
        }
        ctx.distinct(crate::prng::mix(doc.hash64(), crate::prng::hash_bytes(text.as_bytes())));
        return;
    }
    // ---- non-predicate paths
    let all = match split_items(&res[0]) {
        Some(v) => v,
        None => {
            ctx.violation("all/offsets-do-not-delimit-items", || format!("{} ; {}", show_sel(&res[0]), info()));
            return;
        }
    };
    let scalar_root = doc.is_scalar();
    let tag = if scalar_root { "/scalar-root" } else { "" };
    for it in &all {
        ctx.check_canonical(&format!("select(All item){}", tag), it, &info);
    }
    // First = first item of All or nothing
    let exp_first: Vec<Vec<u8>> = all.iter().take(1).cloned().collect();
    match split_items(&res[1]) {
        Some(v) if v == exp_first => {}
        _ => ctx.violation("first/not-first-of-all", || format!("First {} All {} ; {}", show_sel(&res[1]), show_sel(&res[0]), info())),
    }
    // Array = one canonical array whose elements are exactly All's items
    let check_array = |ctx: &mut Ctx, s: &Selected, what: &str| {
        let one = split_items(s);
        match one {
            Some(v) if v.len() == 1 => {
                let built = {
                    let mut b = Vec::new();
                    // independent assembly of the expected array from the All items
                    let trees: Option<Vec<Tree>> = all.iter().map(|i| refcodec::strict_decode(i).ok()).collect();
                    match trees {
                        Some(ts) => {
                            b = refcodec::encode(&Tree::Arr(ts));
                            Some(b)
                        }
                        None => None,
                    }
                };
                match built {
                    Some(b) if b == v[0] => {}
                    Some(b) => ctx.violation(&format!("{}/not-array-of-all-items{}", what, tag), || format!("got {} expected {} ; {}", hex(&v[0]), hex(&b), info())),
                    None => {} // items themselves non-canonical: already reported
                }
            }
            _ => ctx.violation(&format!("{}/offsets", what), || format!("{} ; {}", show_sel(s), info())),
        }
    };
    check_array(ctx, &res[2], "array");
    // Mixed = Array if >= 2 items else All
    if all.len() >= 2 {
        if res[3] != res[2] {
            ctx.violation("mixed/differs-from-array", || format!("Mixed {} Array {} ; {}", show_sel(&res[3]), show_sel(&res[2]), info()));
        }
    } else if res[3] != res[0] {
        ctx.violation("mixed/differs-from-all", || format!("Mixed {} All {} ; {}", show_sel(&res[3]), show_sel(&res[0]), info()));
    }
    if ex != !all.is_empty() {
        ctx.violation("exists/differs-from-all", || format!("exists={} items={} ; {}", ex, all.len(), info()));
    }
    // convenience functions equal their selector mode
    for (which, mode, name) in [(0usize, 3usize, "get_by_path"), (1, 1, "get_by_path_first"), (2, 2, "get_by_path_array")] {
        match conv(which, text.as_bytes(), &enc) {
            Err(p) => ctx.panic_violation(name, &p, &info),
            Ok(Some(Ok(s))) => {
                if s != res[mode] {
                    ctx.violation(&format!("{}/differs-from-selector-mode", name), || format!("{} vs {} ; {}", show_sel(&s), show_sel(&res[mode]), info()));
                }
            }
            Ok(Some(Err(e))) => ctx.violation(&format!("{}/err-on-valid", name), || format!("{} ; {}", e, info())),
            Ok(None) => {}
        }
    }
    match guard(|| {
        let p = parse_json_path(text.as_bytes()).ok()?;
        Some(jsonb::path_exists(&enc, p).map_err(|e| format!("{:?}", e)))
    }) {
        Err(p) => ctx.panic_violation("path_exists", &p, &info),
        Ok(Some(r)) => {
            if r != Ok(ex) {
                ctx.violation("path_exists/differs-from-selector", || format!("{:?} vs {} ; {}", r, ex, info()));
            }
        }
        Ok(None) => {}
    }
    // path_match on a non-predicate path is an error, not a panic
    if let Err(p) = guard(|| parse_json_path(text.as_bytes()).ok().map(|p| jsonb::path_match(&enc, p).is_ok())) {
        ctx.panic_violation("path_match(non-predicate)", &p, &info);
    }
    ctx.count(&format!("items.{}", all.len().min(3)));
    ctx.distinct(crate::prng::mix(doc.hash64(), crate::prng::hash_bytes(text.as_bytes())));
}

pub fn run(ctx: &mut Ctx) {
    let n = ctx.budget(400_000, 8_000_000);
    let cfg = PathCfg { max_steps: 4, filters: true, big_indices: false };
    let mon = super::routes::Monitor::new(super::routes::PATHS);
    for i in 0..n {
        if !ctx.next_case() {
            return;
        }
        let mut rng = ctx.rng.fork();
        let doc = gen_doc(&mut rng, i);
        let pg = PathGen::new(&doc);
        for round in 0..3 {
            let path = if rng.chance(5, 6) { pg.guided_path(&mut rng, &cfg, &doc) } else { pg.path(&mut rng, &cfg) };
            let style = if rng.chance(1, 4) { refpath::RStyle { spacing: rng.bool(), kwcase: false, quoting: true, esc: true } } else { refpath::PLAIN };
            let text = refpath::render(&path, &style, &mut rng);
            check(ctx, &doc, &path, &text);
            let small = doc.nodes() < 3000;
            if round == 0 && small && matches!(path, JPath::Steps(_)) {
                // the same path written without the leading `$` (`a.b`, `[0].a`, `:a`): the relations
                // between the modes and the existence test hold for every path the parser accepts
                let plain = refpath::render(&path, &refpath::PLAIN, &mut rng);
                let rootless = plain.strip_prefix("$.").filter(|r| r.starts_with(|c: char| c.is_ascii_alphabetic())).or_else(|| plain.strip_prefix('$').filter(|r| r.starts_with('[') || r.starts_with(':')));
                if let Some(r) = rootless {
                    // (a first name that is also a literal or keyword would be read as one)
                    let first: String = r.chars().take_while(|c| c.is_ascii_alphanumeric() || *c == '_').collect::<String>().to_ascii_lowercase();
                    if !r.is_empty() && !["true", "false", "null", "last", "exists", "to", "nan", "inf", "infinity"].contains(&first.as_str()) {
                        ctx.count("rootless spellings");
                        check(ctx, &doc, &path, r);
                    }
                }
            }
            if round == 2 && small && i % 2 == 0 && !refpath::has_arith(&path) {
                let other = refcodec::encode(&crate::gen::derive(&doc, &mut rng));
                let enc = refcodec::encode(&doc);
                selector_reuse(ctx, &enc, &other, &text, &|| format!("path={:?} doc={}", text, doc.show()));
                if let Some(o2) = same_len_other_root(&enc, &doc) {
                    selector_reuse(ctx, &enc, &o2, &text, &|| format!("path={:?} doc={}", text, doc.show()));
                }
            }
            if round == 1 && i % 2 == 1 && doc.nodes() < 300 && !matches!(refpath::eval(&path, &doc), refpath::Outcome::Unspecified) {
                let plain = refpath::render(&path, &refpath::PLAIN, &mut rng);
                let args = super::routes::path_args(&doc, plain.clone(), plain, &mut rng);
                mon.check(ctx, &doc, &doc, &args, &mut rng);
            }
            ctx.sample(|| format!("{} on {}", text, doc.show()));
        }
    }
}
