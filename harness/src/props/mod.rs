//! One workload + oracle module per property.

use crate::monitor::Ctx;

pub mod c01;
pub mod c02;
pub mod c10;
pub mod c18;
pub mod c20;

pub fn registry() -> Vec<(&'static str, fn(&mut Ctx))> {
    vec![
        ("C01", c01::run as fn(&mut Ctx)),
        ("C02", c02::run),
        ("C10", c10::run),
        ("C18", c18::run),
        ("C20", c20::run),
    ]
}
