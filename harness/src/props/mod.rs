//! One workload + oracle module per property.

use crate::monitor::Ctx;

pub mod common;
pub mod c01;
pub mod c02;
pub mod c03;
pub mod c04;
pub mod c05;
pub mod c06;
pub mod c07;
pub mod c08;
pub mod c09;
pub mod paths;
pub mod c11;
pub mod routes;
pub mod c12;
pub mod c13;
pub mod c14;
pub mod c15;
pub mod c16;
pub mod c19;
pub mod c10;
pub mod c17;
pub mod c18;
pub mod c20;

pub fn registry() -> Vec<(&'static str, fn(&mut Ctx))> {
    vec![
        ("C01", c01::run as fn(&mut Ctx)),
        ("C02", c02::run),
        ("C03", c03::run),
        ("C04", c04::run),
        ("C05", c05::run),
        ("C06", c06::run),
        ("C07", c07::run),
        ("C08", c08::run),
        ("C09", c09::run),
        ("C10", c10::run),
        ("C11", c11::run),
        ("C12", c12::run),
        ("C13", c13::run),
        ("C19", c19::run),
        ("C14", c14::run),
        ("C15", c15::run),
        ("C16", c16::run),
        ("C17", c17::run),
        ("C18", c18::run),
        ("C20", c20::run),
    ]
}
