//! C13 — array set functions implement multiset semantics over identical elements.

use super::common::*;
use crate::gen;
use crate::monitor::{append_only, guard, Ctx};
use crate::prng::Rng;
use crate::refcodec;
use crate::refops;
use crate::tree::{hex, Tree};

const PREFILL: &[u8] = &[0x5A, 0x80, 0, 0, 1, 0x55, 0xAA];

fn pool_array(rng: &mut Rng, pool: &[Tree]) -> Tree {
    match rng.below(12) {
        0 => rng.pick(pool).clone(),                                // non-array input: scalar or container element
        1 => Tree::Obj(vec![("a".into(), rng.pick(pool).clone())]), // object input
        2 => Tree::Arr(vec![]),
        _ => {
            let n = rng.below(9);
            Tree::Arr((0..n).map(|_| rng.pick(pool).clone()).collect())
        }
    }
}

fn element_pool(rng: &mut Rng) -> Vec<Tree> {
    // few distinct elements -> heavy duplication; includes equal / deep-differing containers
    // and numerically equal numbers in different encodings (distinct elements for C13)
    let mut pool: Vec<Tree> = Vec::new();
    let n = rng.below(5) + 2;
    for _ in 0..n {
        let x = match rng.below(6) {
            0 | 1 => gen::scalar(rng, true),
            2 => gen::doc(rng, &gen::DOC_SMALL),
            _ => {
                if pool.is_empty() {
                    gen::scalar(rng, true)
                } else {
                    let b = rng.pick(&pool).clone();
                    gen::derive(&b, rng)
                }
            }
        };
        pool.push(x);
    }
    // payload twins: a string made of exactly the bytes a number of the pool is stored as
    // (65 is stored as `P A`), so that identity by payload alone confuses the two
    if rng.chance(1, 3) {
        let twins: Vec<Tree> = pool
            .iter()
            .filter_map(|t| if let Tree::Num(n) = t { Some(*n) } else { None })
            .filter_map(|n| {
                let mut b = Vec::new();
                refcodec::encode_num(&n, &mut b);
                String::from_utf8(b).ok().map(Tree::Str)
            })
            .collect();
        pool.extend(twins);
        let v = rng.below(0x60) as u64 + 0x20;
        pool.push(Tree::Num(crate::tree::Num::U(v)));
        pool.push(Tree::Str(format!("P{}", v as u8 as char)));
        pool.push(Tree::Num(crate::tree::Num::I(-(v as i64))));
        pool.push(Tree::Str(format!("@{}", (256 - v) as u8 as char)));
    }
    pool
}

pub fn check_pair(ctx: &mut Ctx, a: &Tree, b: &Tree) {
    let (ea, eb) = (refcodec::encode(a), refcodec::encode(b));
    let info = || format!("a={} b={} a_bytes={} b_bytes={}", a.show(), b.show(), hex(&ea), hex(&eb));
    let exp_distinct = refops::distinct(a);
    let (exp_inter, exp_except) = refops::inter_except(a, b);
    let exp_overlap = matches!(&exp_inter, Tree::Arr(v) if !v.is_empty());

    let d = append_only(ctx, "array_distinct", PREFILL, &|buf| jsonb::array_distinct(&ea, buf), &info);
    let i = append_only(ctx, "array_intersection", PREFILL, &|buf| jsonb::array_intersection(&ea, &eb, buf), &info);
    let e = append_only(ctx, "array_except", PREFILL, &|buf| jsonb::array_except(&ea, &eb, buf), &info);
    let o = guard(|| jsonb::array_overlap(&ea, &eb));
    ctx.count("set.calls");

    let mut got_inter: Option<Tree> = None;
    let mut got_except: Option<Tree> = None;
    match d {
        Some(Ok(bytes)) => {
            ctx.check_doc("array_distinct", &bytes, &exp_distinct, &info);
            // idempotent on the library's own output
            let mut again = Vec::new();
            match guard(|| jsonb::array_distinct(&bytes, &mut again)) {
                Ok(Ok(())) => {
                    if again != bytes {
                        ctx.violation("array_distinct/not-idempotent", || format!("distinct(distinct(a))={} distinct(a)={} ; {}", hex(&again), hex(&bytes), info()));
                    }
                }
                Ok(Err(e)) => ctx.violation("array_distinct/err-on-own-output", || format!("{:?} ; {}", e, info())),
                Err(p) => ctx.panic_violation("array_distinct", &p, &info),
            }
        }
        Some(Err(e)) => ctx.violation("array_distinct/err-on-valid", || format!("{} ; {}", e, info())),
        None => {}
    }
    match i {
        Some(Ok(bytes)) => {
            if ctx.check_doc("array_intersection", &bytes, &exp_inter, &info) {
                got_inter = Some(exp_inter.clone());
            }
        }
        Some(Err(e)) => ctx.violation("array_intersection/err-on-valid", || format!("{} ; {}", e, info())),
        None => {}
    }
    match e {
        Some(Ok(bytes)) => {
            if ctx.check_doc("array_except", &bytes, &exp_except, &info) {
                got_except = Some(exp_except.clone());
            }
        }
        Some(Err(e)) => ctx.violation("array_except/err-on-valid", || format!("{} ; {}", e, info())),
        None => {}
    }
    match o {
        Ok(Ok(v)) => {
            if v != exp_overlap {
                ctx.violation("array_overlap/wrong", || format!("overlap={} expected {} ; {}", v, exp_overlap, info()));
            }
        }
        Ok(Err(e)) => ctx.violation("array_overlap/err-on-valid", || format!("{:?} ; {}", e, info())),
        Err(p) => ctx.panic_violation("array_overlap", &p, &info),
    }
    // partition law on the reference itself (sanity of the model): |inter| + |except| = |a|
    if let (Some(Tree::Arr(x)), Some(Tree::Arr(y))) = (&got_inter, &got_except) {
        if x.len() + y.len() != refops::elems(a).len() {
            ctx.notes.push("HARNESS-ERROR reference partition law broken".into());
        }
    }
    ctx.distinct(crate::prng::mix(a.hash64(), b.hash64() ^ 0x13));
}

pub fn run(ctx: &mut Ctx) {
    // small-scope: all pairs of arrays of length <= 3 over a 4-element pool, plus non-array inputs
    if ctx.shard == 0 {
        let pool = vec![Tree::Num(crate::tree::Num::U(1)), Tree::Num(crate::tree::Num::f(1.0)), Tree::Str("a".into()), Tree::Arr(vec![Tree::Null])];
        let mut lists: Vec<Tree> = vec![Tree::Arr(vec![])];
        for a in &pool {
            lists.push(Tree::Arr(vec![a.clone()]));
            lists.push(a.clone());
            for b in &pool {
                lists.push(Tree::Arr(vec![a.clone(), b.clone()]));
                if !ctx.miri {
                    for c in &pool {
                        lists.push(Tree::Arr(vec![a.clone(), b.clone(), c.clone()]));
                    }
                }
            }
        }
        lists.push(Tree::Obj(vec![]));
        for a in &lists {
            for b in &lists {
                if !ctx.next_case() {
                    return;
                }
                check_pair(ctx, a, b);
            }
        }
        ctx.exhaustive.insert("all pairs of lists of length<=3 over a 4-element pool".into(), !ctx.miri);
    }
    let mon = super::routes::Monitor::new(super::routes::SETS);
    // zeros and ones of every encoding, as text and as JSONB
    if ctx.shard == 1 % ctx.nshards {
        use crate::tree::Num;
        let pool = vec![Tree::Num(Num::U(0)), Tree::Num(Num::f(0.0)), Tree::Num(Num::f(-0.0)), Tree::Num(Num::I(-1)), Tree::Num(Num::f(-1.0)), Tree::Str("\u{20000}".into()), Tree::Str("\u{10000}".into())];
        let mut lists: Vec<Tree> = Vec::new();
        for a in &pool {
            lists.push(a.clone());
            for b in &pool {
                lists.push(Tree::Arr(vec![a.clone(), b.clone()]));
            }
        }
        lists.push(Tree::Arr(pool.clone()));
        let mut rng = ctx.rng.fork();
        for a in &lists {
            for b in &lists {
                if !ctx.next_case() {
                    return;
                }
                check_pair(ctx, a, b);
                if !ctx.miri || ctx.case_no % 7 == 0 {
                    let args = super::routes::plain_args(a, &mut rng);
                    mon.check(ctx, a, b, &args, &mut rng);
                }
            }
        }
    }
    let n = ctx.budget(1_000_000, 20_000_000);
    for i in 0..n {
        if !ctx.next_case() {
            return;
        }
        let mut rng = ctx.rng.fork();
        let pool = element_pool(&mut rng);
        let a = pool_array(&mut rng, &pool);
        let b = if rng.chance(1, 8) { a.clone() } else { pool_array(&mut rng, &pool) };
        check_pair(ctx, &a, &b);
        if i % 3 == 0 {
            let args = super::routes::plain_args(&a, &mut rng);
            mon.check(ctx, &a, &b, &args, &mut rng);
        }
        if i % 97 == 13 && !ctx.miri {
            // more distinct elements than a small scan buffer holds, early ones repeated late
            let n = 33 + rng.below(60);
            let mut la: Vec<Tree> = (0..n).map(|k| Tree::Num(crate::tree::Num::U(k as u64))).collect();
            for _ in 0..(2 + rng.below(5)) {
                la.push(la[rng.below(n)].clone());
            }
            let lb: Vec<Tree> = (0..(33 + rng.below(40))).map(|_| la[rng.below(la.len())].clone()).collect();
            check_pair(ctx, &Tree::Arr(la.clone()), &Tree::Arr(lb.clone()));
            check_pair(ctx, &Tree::Arr(lb), &Tree::Arr(la));
        }
        if ctx.case_no % 2003 == 11 && !ctx.miri {
            let e = rng.pick(&pool).clone();
            let (na, nb) = (*rng.pick(&[255usize, 256, 257, 259, 300]), *rng.pick(&[254usize, 255, 256, 258, 300]));
            let mut la: Vec<Tree> = std::iter::repeat(e.clone()).take(na).collect();
            let mut lb: Vec<Tree> = std::iter::repeat(e.clone()).take(nb).collect();
            la.insert(rng.below(na), rng.pick(&pool).clone());
            lb.push(rng.pick(&pool).clone());
            check_pair(ctx, &Tree::Arr(la), &Tree::Arr(lb));
        }
        ctx.sample(|| {
            let (i, e) = refops::inter_except(&a, &b);
            format!("a={} b={} -> distinct={} inter={} except={}", a.show(), b.show(), refops::distinct(&a).show(), i.show(), e.show())
        });
    }
}
