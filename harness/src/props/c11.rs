//! C11 — functions give the same answer for JSON text as for its JSONB encoding.
//! For every function with k document arguments all 2^k text/binary choices are called and each
//! observation is compared with the all-binary one.

use super::c05::lib_keypath;
use crate::gen::{self, PathCfg, PathGen};
use crate::monitor::{guard, Ctx};
use crate::prng::Rng;
use crate::refcodec;
use crate::refjson::{self, Mode};
use crate::refops::KP;
use crate::refpath;
use crate::tree::{hex, lossy, Tree};
use jsonb::jsonpath::parse_json_path;
use std::collections::BTreeSet;

fn h(b: &[u8]) -> String {
    hex(b)
}
fn ob(b: Option<Vec<u8>>) -> String {
    match b {
        Some(x) => format!("Some({})", hex(&x)),
        None => "None".into(),
    }
}
fn rb<E: std::fmt::Debug>(r: Result<(), E>, buf: &[u8]) -> String {
    match r {
        Ok(()) => format!("Ok({})", hex(buf)),
        Err(_) => "Err".into(), // same success-or-error outcome; the variant is not compared
    }
}

/// meaning of a rendering (to_string of a text returns the text itself)
fn meaning(s: &str) -> String {
    match refjson::parse(s.as_bytes(), Mode::Lenient) {
        Ok(p) => format!("doc:{}", p.tree.text_norm().show()),
        Err(e) => format!("unparseable({}):{:?}", e, s),
    }
}

fn serde_obs(v: &serde_json::Value) -> String {
    // exact numeric meaning: class + value (floats by bits)
    match v {
        serde_json::Value::Number(n) => {
            if let Some(u) = n.as_u64() {
                format!("u{}", u)
            } else if let Some(i) = n.as_i64() {
                format!("i{}", i)
            } else {
                format!("f{:016x}", n.as_f64().unwrap().to_bits())
            }
        }
        serde_json::Value::Array(a) => format!("[{}]", a.iter().map(serde_obs).collect::<Vec<_>>().join(",")),
        serde_json::Value::Object(o) => {
            let mut m: Vec<String> = o.iter().map(|(k, v)| format!("{:?}:{}", k, serde_obs(v))).collect();
            m.sort();
            format!("{{{}}}", m.join(","))
        }
        other => format!("{}", other),
    }
}

pub struct Args {
    pub index: usize,
    pub pos: i32,
    pub name: String,
    pub keypath: Vec<KP>,
    pub keys: Vec<String>,
    pub path_text: String,
    pub pred_text: String,
}

pub type F1 = (&'static str, Box<dyn Fn(&[u8], &Args) -> String>);
pub type F2 = (&'static str, Box<dyn Fn(&[u8], &[u8], &Args) -> String>);

pub fn unary_functions() -> Vec<F1> {
    let mut v: Vec<F1> = Vec::new();
    v.push(("array_length", Box::new(|d, _| format!("{:?}", jsonb::array_length(d)))));
    v.push(("get_by_index", Box::new(|d, a| ob(jsonb::get_by_index(d, a.index)))));
    v.push(("get_by_name", Box::new(|d, a| ob(jsonb::get_by_name(d, &a.name, false)))));
    v.push(("get_by_name(ignore_case)", Box::new(|d, a| ob(jsonb::get_by_name(d, &a.name, true)))));
    v.push(("get_by_keypath", Box::new(|d, a| {
        let kp = lib_keypath(&a.keypath);
        ob(jsonb::get_by_keypath(d, kp.iter()))
    })));
    v.push(("exists_all_keys", Box::new(|d, a| format!("{}", jsonb::exists_all_keys(d, a.keys.iter().map(|k| k.as_bytes()))))));
    v.push(("exists_any_keys", Box::new(|d, a| format!("{}", jsonb::exists_any_keys(d, a.keys.iter().map(|k| k.as_bytes()))))));
    v.push(("object_keys", Box::new(|d, _| ob(jsonb::object_keys(d)))));
    v.push(("object_each", Box::new(|d, _| match jsonb::object_each(d) {
        Some(p) => format!("Some({:?})", p.iter().map(|(k, v)| format!("{}={}", h(k), h(v))).collect::<Vec<_>>()),
        None => "None".into(),
    })));
    v.push(("array_values", Box::new(|d, _| match jsonb::array_values(d) {
        Some(p) => format!("Some({:?})", p.iter().map(|v| h(v)).collect::<Vec<_>>()),
        None => "None".into(),
    })));
    v.push(("is_null/as_null", Box::new(|d, _| format!("{} {:?}", jsonb::is_null(d), jsonb::as_null(d)))));
    v.push(("is_boolean/as_bool/to_bool", Box::new(|d, _| format!("{} {:?} {:?}", jsonb::is_boolean(d), jsonb::as_bool(d), jsonb::to_bool(d).ok()))));
    v.push(("is_number/as_number", Box::new(|d, _| format!("{} {:?}", jsonb::is_number(d), jsonb::as_number(d).map(|n| crate::tree::Num::from_lib(&n).canon())))));
    v.push(("is_i64/as_i64/to_i64", Box::new(|d, _| format!("{} {:?} {:?}", jsonb::is_i64(d), jsonb::as_i64(d), jsonb::to_i64(d).ok()))));
    v.push(("is_u64/as_u64/to_u64", Box::new(|d, _| format!("{} {:?} {:?}", jsonb::is_u64(d), jsonb::as_u64(d), jsonb::to_u64(d).ok()))));
    v.push(("is_f64/as_f64/to_f64", Box::new(|d, _| format!("{} {:?} {:?}", jsonb::is_f64(d), jsonb::as_f64(d).map(|f| f.to_bits()), jsonb::to_f64(d).ok().map(|f| f.to_bits())))));
    v.push(("is_string/as_str/to_str", Box::new(|d, _| format!("{} {:?} {:?}", jsonb::is_string(d), jsonb::as_str(d).map(|s| h(s.as_bytes())), jsonb::to_str(d).ok()))));
    v.push(("is_array/is_object", Box::new(|d, _| format!("{} {}", jsonb::is_array(d), jsonb::is_object(d)))));
    v.push(("type_of", Box::new(|d, _| format!("{:?}", jsonb::type_of(d).ok()))));
    v.push(("to_string", Box::new(|d, _| meaning(&jsonb::to_string(d)))));
    v.push(("to_pretty_string", Box::new(|d, _| meaning(&jsonb::to_pretty_string(d)))));
    v.push(("to_serde_json", Box::new(|d, _| match jsonb::to_serde_json(d) {
        Ok(v) => format!("Ok({})", serde_obs(&v)),
        Err(_) => "Err".into(),
    })));
    v.push(("to_serde_json_object", Box::new(|d, _| match jsonb::to_serde_json_object(d) {
        Ok(Some(m)) => format!("Ok(Some({}))", serde_obs(&serde_json::Value::Object(m))),
        Ok(None) => "Ok(None)".into(),
        Err(_) => "Err".into(),
    })));
    v.push(("convert_to_comparable", Box::new(|d, _| {
        let mut b = Vec::new();
        jsonb::convert_to_comparable(d, &mut b);
        h(&b)
    })));
    v.push(("traverse_check_string", Box::new(|d, a| {
        let seen = std::cell::RefCell::new(Vec::new());
        let r = jsonb::traverse_check_string(d, |s| {
            seen.borrow_mut().push(s.to_vec());
            false
        });
        let mut s = seen.into_inner();
        s.sort();
        let r2 = jsonb::traverse_check_string(d, |s| s == a.name.as_bytes());
        format!("{} {} {:?}", r, r2, s.iter().map(|x| h(x)).collect::<Vec<_>>())
    })));
    v.push(("delete_by_name", Box::new(|d, a| {
        let mut b = Vec::new();
        rb(jsonb::delete_by_name(d, &a.name, &mut b), &b)
    })));
    v.push(("delete_by_index", Box::new(|d, a| {
        let mut b = Vec::new();
        rb(jsonb::delete_by_index(d, a.pos, &mut b), &b)
    })));
    v.push(("delete_by_keypath", Box::new(|d, a| {
        let kp = lib_keypath(&a.keypath);
        let mut b = Vec::new();
        rb(jsonb::delete_by_keypath(d, kp.iter(), &mut b), &b)
    })));
    v.push(("array_distinct", Box::new(|d, _| {
        let mut b = Vec::new();
        rb(jsonb::array_distinct(d, &mut b), &b)
    })));
    v.push(("object_delete", Box::new(|d, a| {
        let set: BTreeSet<&str> = a.keys.iter().map(|s| s.as_str()).collect();
        let mut b = Vec::new();
        rb(jsonb::object_delete(d, &set, &mut b), &b)
    })));
    v.push(("object_pick", Box::new(|d, a| {
        let set: BTreeSet<&str> = a.keys.iter().map(|s| s.as_str()).collect();
        let mut b = Vec::new();
        rb(jsonb::object_pick(d, &set, &mut b), &b)
    })));
    v.push(("strip_nulls", Box::new(|d, _| {
        let mut b = Vec::new();
        rb(jsonb::strip_nulls(d, &mut b), &b)
    })));
    // path functions
    for (name, which) in [("get_by_path", 0usize), ("get_by_path_first", 1), ("get_by_path_array", 2)] {
        v.push((name, Box::new(move |d, a| {
            let p = match parse_json_path(a.path_text.as_bytes()) {
                Ok(p) => p,
                Err(_) => return "path-rejected".into(),
            };
            let (mut data, mut offs) = (Vec::new(), Vec::new());
            let r = match which {
                0 => jsonb::get_by_path(d, p, &mut data, &mut offs),
                1 => jsonb::get_by_path_first(d, p, &mut data, &mut offs),
                _ => jsonb::get_by_path_array(d, p, &mut data, &mut offs),
            };
            match r {
                Ok(()) => format!("Ok({} {:?})", h(&data), offs),
                Err(_) => "Err".into(),
            }
        })));
    }
    v.push(("path_exists", Box::new(|d, a| match parse_json_path(a.path_text.as_bytes()) {
        Ok(p) => format!("{:?}", jsonb::path_exists(d, p).ok()),
        Err(_) => "path-rejected".into(),
    })));
    v.push(("path_match", Box::new(|d, a| match parse_json_path(a.pred_text.as_bytes()) {
        Ok(p) => format!("{:?}", jsonb::path_match(d, p).ok()),
        Err(_) => "path-rejected".into(),
    })));
    // lazy value
    v.push(("parse_lazy_value/to_vec/to_value/array_length", Box::new(|d, _| match jsonb::parse_lazy_value(d) {
        Ok(lv) => {
            let tv = Tree::from_value(&lv.to_value()).map(|t| t.canon().show());
            format!("Ok({} {:?} {:?})", h(&lv.to_vec()), tv, lv.array_length())
        }
        Err(_) => "Err".into(),
    })));
    v
}

pub fn binary_functions() -> Vec<F2> {
    let mut v: Vec<F2> = Vec::new();
    v.push(("contains", Box::new(|a, b, _| format!("{}", jsonb::contains(a, b)))));
    v.push(("compare", Box::new(|a, b, _| format!("{:?}", jsonb::compare(a, b).ok()))));
    v.push(("concat", Box::new(|a, b, _| {
        let mut o = Vec::new();
        rb(jsonb::concat(a, b, &mut o), &o)
    })));
    v.push(("array_insert", Box::new(|a, b, x| {
        let mut o = Vec::new();
        rb(jsonb::array_insert(a, x.pos, b, &mut o), &o)
    })));
    v.push(("array_intersection", Box::new(|a, b, _| {
        let mut o = Vec::new();
        rb(jsonb::array_intersection(a, b, &mut o), &o)
    })));
    v.push(("array_except", Box::new(|a, b, _| {
        let mut o = Vec::new();
        rb(jsonb::array_except(a, b, &mut o), &o)
    })));
    v.push(("array_overlap", Box::new(|a, b, _| format!("{:?}", jsonb::array_overlap(a, b).ok()))));
    for upd in [false, true] {
        v.push((if upd { "object_insert(update)" } else { "object_insert" }, Box::new(move |a, b, x| {
            let mut o = Vec::new();
            rb(jsonb::object_insert(a, &x.name, b, upd, &mut o), &o)
        })));
    }
    v
}

/// text of a document: compact or with spelling variants, never starting with a space
pub fn text_for(t: &Tree, rng: &mut Rng) -> Vec<u8> {
    let st = match rng.below(3) {
        0 => refjson::COMPACT,
        1 => refjson::Style { ws: 1, esc: 1, numvar: true },
        _ => refjson::Style { ws: 1, esc: 0, numvar: false },
    };
    let body = refjson::to_text(t, &st, rng, false);
    if st.ws == 1 && rng.chance(1, 6) {
        // leading white space other than a space is ordinary JSON text too (the parser also skips
        // form feed and the escaped spellings of its change log)
        let mut out = rng.pick(&[&b"\n"[..], b"\t", b"\r\n", b"\n  ", b"\t ", b"\x0c", b"\x0c\n", b"\\n", b"\\t", b"\\r", b"\\x0C"]).to_vec();
        out.extend_from_slice(&body);
        return out;
    }
    body
}

/// documents whose text looks like a binary header / stresses number text
fn special_doc(rng: &mut Rng) -> Tree {
    use crate::tree::Num;
    match rng.below(8) {
        0 => Tree::Num(Num::U(10_000_000 + rng.next_u64() % 1_000_000_000_000)),
        1 => Tree::Num(Num::I(-(10_000_000 + (rng.next_u64() % 1_000_000_000_000) as i64))),
        2 => {
            // long-mantissa float (needs correct rounding)
            loop {
                let f = f64::from_bits(rng.next_u64());
                if f.is_finite() {
                    break Tree::Num(Num::f(f));
                }
            }
        }
        3 => {
            let fifth = *rng.pick(&['0', '5', '9', '@', 'A', 'O', 'P', 'Z', ' ', 'a', '\u{1}', '\u{10}']);
            let tail: String = (0..rng.below(10)).map(|_| *rng.pick(&['0', 'A', 'P', 'z', ' '])).collect();
            Tree::Str(format!("abc{}{}", fifth, tail))
        }
        4 => Tree::Arr(vec![special_doc(rng), Tree::Num(Num::f(0.1)), special_doc(rng)]),
        5 => Tree::Obj(vec![("k".into(), special_doc(rng))]),
        6 => Tree::Num(Num::f((rng.next_u64() % 100_000_000_000) as f64 / 1000.0)),
        _ => Tree::Str("12345678".into()),
    }
}

pub fn compare_obs(ctx: &mut Ctx, fname: &str, combo: &str, base: &Result<String, crate::monitor::Panicked>, got: &Result<String, crate::monitor::Panicked>, info: &dyn Fn() -> String) {
    match (base, got) {
        (Ok(b), Ok(g)) => {
            if b != g {
                ctx.violation(&format!("{}/text-vs-jsonb-differ", fname), || format!("arguments as {} give {} ; all-binary gives {} ; {}", combo, trunc(g), trunc(b), info()));
            }
        }
        (_, Err(p)) => ctx.panic_violation(&format!("{}({})", fname, combo), p, info),
        (Err(p), _) => ctx.panic_violation(&format!("{}(jsonb)", fname), p, info),
    }
}

pub fn trunc(s: &str) -> String {
    if s.len() > 500 {
        let cut = s.char_indices().take_while(|(i, _)| *i < 500).last().map(|(i, _)| i).unwrap_or(0);
        format!("{}…", &s[..cut])
    } else {
        s.to_string()
    }
}

pub fn run(ctx: &mut Ctx) {
    let unary = unary_functions();
    let binary = binary_functions();
    let n = if ctx.miri { ctx.miri_cases(2) } else { ctx.budget(100_000, 2_000_000) };
    let pcfg = PathCfg { max_steps: 3, filters: true, big_indices: false };
    for i in 0..n {
        if !ctx.next_case() {
            return;
        }
        let mut rng = ctx.rng.fork();
        let t = match i % 5 {
            _ if i % 4001 == 7 && !ctx.miri => gen::big_doc(&mut rng, ctx.tier == crate::monitor::Tier::Thorough && i % 5 == 0),
            0 => special_doc(&mut rng),
            1 => gen::scalar(&mut rng, false),
            _ => gen::doc(&mut rng, &gen::DOC_FINITE),
        };
        let u = match i % 3 {
            0 => special_doc(&mut rng),
            1 => gen::derive(&t, &mut rng),
            _ => gen::doc(&mut rng, &gen::DocCfg { max_depth: 3, max_fan: 3, nonfinite: false, container_p: 4 }),
        };
        let (tt, ut) = (text_for(&t, &mut rng), text_for(&u, &mut rng));
        // "the encoding of that text": what the reference parser reads, encoded by the reference encoder
        let (tb, ub) = match (refjson::parse(&tt, Mode::Lenient), refjson::parse(&ut, Mode::Lenient)) {
            (Ok(a), Ok(b)) => (refcodec::encode(&a.tree), refcodec::encode(&b.tree)),
            _ => {
                ctx.notes.push("HARNESS-ERROR writer produced text the reference parser rejects".into());
                return;
            }
        };
        let pg = PathGen::new(&t);
        let args = Args {
            index: rng.below(4),
            pos: rng.range(-4, 4) as i32,
            name: match &t {
                Tree::Obj(v) if !v.is_empty() && rng.chance(3, 4) => v[rng.below(v.len())].0.clone(),
                _ => gen::key(&mut rng),
            },
            keypath: gen::keypath_for(&t, &mut rng),
            keys: if rng.chance(1, 8) {
                Vec::new()
            } else {
                let mut k = vec![gen::key(&mut rng)];
                if let Tree::Obj(v) = &t {
                    k.extend(v.iter().take(2).map(|(k, _)| k.clone()));
                }
                k
            },
            path_text: {
                let p = loop {
                    let p = pg.guided_path(&mut rng, &pcfg, &t);
                    if matches!(p, refpath::JPath::Steps(_)) {
                        break p;
                    }
                };
                refpath::render(&p, &refpath::PLAIN, &mut rng)
            },
            pred_text: {
                let e = pg.guided_expr(&mut rng, &pcfg, &t, &t, true, 1, 1);
                refpath::render(&refpath::JPath::Predicate(e), &refpath::PLAIN, &mut rng)
            },
        };
        let info1 = || format!("text={:?} text_bytes={} jsonb={} index={} pos={} name={:?} keypath={:?} keys={:?} path={:?} pred={:?}", lossy(&tt), hex(&tt), hex(&tb), args.index, args.pos, args.name, args.keypath, args.keys, args.path_text, args.pred_text);
        for (name, f) in unary.iter() {
            ctx.count(name);
            let base = guard(|| f(&tb, &args));
            let got = guard(|| f(&tt, &args));
            compare_obs(ctx, name, "text", &base, &got, &info1);
        }
        let info2 = || format!("a_text={:?} b_text={:?} a_jsonb={} b_jsonb={} pos={} name={:?}", lossy(&tt), lossy(&ut), hex(&tb), hex(&ub), args.pos, args.name);
        for (name, f) in binary.iter() {
            ctx.count(name);
            let base = guard(|| f(&tb, &ub, &args));
            for (combo, a, b) in [("text,jsonb", &tt, &ub), ("jsonb,text", &tb, &ut), ("text,text", &tt, &ut)] {
                let got = guard(|| f(a, b, &args));
                compare_obs(ctx, name, combo, &base, &got, &info2);
            }
        }
        ctx.distinct(crate::prng::mix(crate::prng::hash_bytes(&tt), crate::prng::hash_bytes(&ut)));
        ctx.sample(|| format!("{:?} / {:?}", lossy(&tt), lossy(&ut)));
    }
}
