//! C02 — JSON text parser accepts exactly the documented language, with standard meaning.

use crate::gen;
use crate::monitor::{guard, Ctx};
use crate::prng::Rng;
use crate::refjson::{self, Mode, Style};
use crate::tree::{hex, lossy, Tree};

/// every number of the parsed value, seen through the value's own integer and float views:
/// exact when the integer fits, absent otherwise, the nearest double always
fn number_views(ctx: &mut Ctx, text: &[u8], info: &dyn Fn() -> String) {
    fn walk(v: &jsonb::Value, bad: &mut Vec<String>) {
        match v {
            jsonb::Value::Number(n) => {
                let m = crate::tree::Num::from_lib(n);
                let (i, u, f) = (v.as_i64(), v.as_u64(), v.as_f64());
                let ef = crate::refops::as_f64(&m);
                let f_ok = matches!(f, Some(x) if x.to_bits() == ef.to_bits() || (x.is_nan() && ef.is_nan()));
                let int_ok = m.int().is_none() || (i == crate::refops::as_i64(&m) && u == crate::refops::as_u64(&m) && v.is_i64() == i.is_some() && v.is_u64() == u.is_some());
                let never_other = i.map_or(true, |x| m.int() == Some(x as i128)) && u.map_or(true, |x| m.int() == Some(x as i128));
                if !(f_ok && int_ok && never_other) {
                    bad.push(format!("{}: as_i64={:?} as_u64={:?} as_f64={:?}", m.show(), i, u, f));
                }
            }
            jsonb::Value::Array(a) => a.iter().for_each(|x| walk(x, bad)),
            jsonb::Value::Object(o) => o.values().for_each(|x| walk(x, bad)),
            _ => {}
        }
    }
    let r = guard(|| {
        let mut bad = Vec::new();
        if let Ok(v) = jsonb::parse_value(text) {
            walk(&v, &mut bad);
        }
        bad
    });
    match r {
        Err(p) => ctx.panic_violation("Value::as_*", &p, info),
        Ok(bad) => {
            if let Some(b) = bad.first() {
                ctx.violation("parse_value/number-views-differ", || format!("{} ; {}", b, info()));
            }
        }
    }
}

pub fn judge(ctx: &mut Ctx, text: &[u8], class: &str) {
    ctx.evals += 1;
    ctx.count(&format!("class.{}", class));
    let exp = refjson::parse(text, Mode::Lenient);
    let info = || format!("class={} text={:?} bytes={}", class, lossy(text), hex(text));
    let lazy_applicable = !matches!(text.first(), Some(0x20) | Some(0x40) | Some(0x80));
    for which in 0..2 {
        if which == 1 && !lazy_applicable {
            continue;
        }
        let name = if which == 0 { "parse_value" } else { "parse_lazy_value" };
        let r = guard(|| {
            if which == 0 {
                jsonb::parse_value(text).map(|v| Tree::from_value(&v)).map_err(|e| format!("{:?}", e))
            } else {
                jsonb::parse_lazy_value(text).map(|lv| Tree::from_value(&lv.to_value())).map_err(|e| format!("{:?}", e))
            }
        });
        match (r, &exp) {
            (Err(p), _) => {
                ctx.count("outcome.panic");
                ctx.panic_violation(name, &p, &info);
            }
            (Ok(Ok(Err(bad))), _) => ctx.violation(&format!("{}/non-utf8", name), || format!("{} ; {}", bad, info())),
            (Ok(Ok(Ok(t))), Ok(p)) => {
                ctx.count("outcome.accept-accept");
                if which == 0 && ctx.case_no % 4 == 0 {
                    number_views(ctx, text, &info);
                }
                if p.exact && !t.same_encoding(&p.tree) {
                    let sig = diff_class(&t, &p.tree);
                    ctx.violation(&format!("{}/wrong-value/{}", name, sig), || format!("parsed {} but the text denotes {} ; {}", t.show(), p.tree.show(), info()));
                }
            }
            (Ok(Ok(Ok(t))), Err(why)) => {
                ctx.count("outcome.accept-REJECT");
                ctx.violation(&format!("{}/accepts-outside-language", name), || format!("accepted as {} but the documented language rejects it ({}) ; {}", t.show(), why, info()));
            }
            (Ok(Err(e)), Ok(p)) => {
                ctx.count("outcome.reject-ACCEPT");
                ctx.violation(&format!("{}/rejects-valid", name), || format!("rejected ({}) a text of the documented language denoting {} ; {}", e, p.tree.show(), info()));
            }
            (Ok(Err(_)), Err(_)) => ctx.count("outcome.reject-reject"),
        }
    }
    if exp.is_ok() && text.len() > 2 {
        ctx.distinct(crate::prng::hash_bytes(text));
    }
}

/// coarse class of the first difference, used in signatures
fn diff_class(a: &Tree, b: &Tree) -> &'static str {
    match (a, b) {
        (Tree::Num(_), Tree::Num(_)) => "number",
        (Tree::Str(_), Tree::Str(_)) => "string",
        (Tree::Arr(x), Tree::Arr(y)) => {
            if x.len() != y.len() {
                return "array-length";
            }
            for (p, q) in x.iter().zip(y) {
                if !p.same_encoding(q) {
                    return diff_class(p, q);
                }
            }
            "array"
        }
        (Tree::Obj(x), Tree::Obj(y)) => {
            if x.len() != y.len() {
                return "object-size";
            }
            for ((k, p), (l, q)) in x.iter().zip(y) {
                if k != l {
                    return "object-key";
                }
                if !p.same_encoding(q) {
                    return diff_class(p, q);
                }
            }
            "object"
        }
        _ => "kind",
    }
}

const ALPHABET: &[u8] = b"[]{},:\"\\u019-+.eEtnfa \x0c\x01\xc3";

fn exhaustive_short(ctx: &mut Ctx) {
    // all strings of length <= 4 over the 25-symbol alphabet, round-robin over shards
    let k = ALPHABET.len();
    let mut idx: u64 = 0;
    for len in 0..=4usize {
        let total = (k as u64).pow(len as u32);
        for code in 0..total {
            idx += 1;
            if (idx as usize) % ctx.nshards != ctx.shard {
                continue;
            }
            let mut c = code;
            let mut s = Vec::with_capacity(len);
            for _ in 0..len {
                s.push(ALPHABET[(c % k as u64) as usize]);
                c /= k as u64;
            }
            judge(ctx, &s, "exhaustive-len<=4");
        }
    }
    ctx.exhaustive.insert("all strings of length<=4 over 25-symbol JSON alphabet".into(), true);
}

fn number_texts(rng: &mut Rng) -> Vec<u8> {
    let digits = |rng: &mut Rng, base: usize, extra: usize| -> String { let n = base + rng.below(extra); (0..n).map(|i| (b'0' + if i == 0 { rng.below(9) as u8 + 1 } else { rng.below(10) as u8 }) as char).collect() };
    let s: String = match rng.below(14) {
        0 => {
            // around 2^63 / 2^64 / i64::MIN
            let base: i128 = *rng.pick(&[1i128 << 63, 1i128 << 64, -(1i128 << 63), (1i128 << 53), -(1i128 << 53)]);
            format!("{}", base + rng.range(-3, 3) as i128)
        }
        1 => format!("{}.{}", digits(rng, 1, 20), digits(rng, 1, 20)),
        2 => format!("{}e{}", digits(rng, 1, 25), rng.range(-340, 340)),
        3 => format!("-{}.{}E{}{}", digits(rng, 1, 5), digits(rng, 1, 25), *rng.pick(&["", "+", "-"]), rng.below(400)),
        4 => (*rng.pick(&["-0", "0", "-0.0", "0.0", "0e0", "-0e-0", "0E+5", "1e0", "10E-1", "1.0", "1e400", "-1e400", "1e-400", "4.9e-324", "2.4703282292062327e-324", "2.4703282292062328e-324", "1.7976931348623157e308", "1.7976931348623159e308", "179769313486231580793728971405303415079934132710037826936173778980444968292764750946649017977587207096330286416692887910946555547851940402630657488671505820681908902000708383676273854845817711531764475730270069855571366959622842914819860834936475292719074168444365510704342711559699508093042880177904174497791.9999999999999999999999999999999999999999999999999999999999999999999999"]))
            .to_string(),
        5 => format!("{}", digits(rng, 17, 9)), // 17–25 digit integers
        6 => format!("0.{}", digits(rng, 17, 9)),
        7 => {
            // halfway cases: 2^53 + 1 written out, and neighbours
            let v = (1u128 << 53) + 1 + (rng.below(4) as u128) * 2;
            format!("{}.{}", v, *rng.pick(&["0", "5", "49999999999999999999", "50000000000000000001"]))
        }
        8 => format!("{}", rng.next_u64()),
        9 => format!("-{}", rng.next_u64() >> rng.below(3)),
        10 => format!("{:?}", f64::from_bits(rng.next_u64() & 0x7FEF_FFFF_FFFF_FFFF)),
        11 => format!("{:e}", f64::from_bits(rng.next_u64() & 0x7FEF_FFFF_FFFF_FFFF)),
        // malformed numbers
        12 => (*rng.pick(&["01", "-", "+1", "1.", ".5", "1e", "1e+", "--1", "1.e5", "0x10", "1_000", "00", "-01", "1e1.5", "Infinity", "NaN", "-Infinity", "1.5.5", "1ee5", "١"])).to_string(),
        _ => format!("{}{}", rng.range(-100, 100), *rng.pick(&["", " ", "\n", "\t\r"])),
    };
    s.into_bytes()
}

fn string_texts(rng: &mut Rng) -> Vec<u8> {
    let bs = '\\';
    let hex4 = |rng: &mut Rng| -> String {
        let v: u32 = match rng.below(8) {
            0 => 0xD800 + rng.below(0x400) as u32,
            1 => 0xDC00 + rng.below(0x400) as u32,
            2 => rng.below(0x20) as u32,
            3 => *rng.pick(&[0x0000, 0x0041, 0x007F, 0x0080, 0x07FF, 0x0800, 0xD7FF, 0xE000, 0xFFFD, 0xFFFF, 0x2028]),
            _ => rng.below(0x10000) as u32,
        };
        if rng.bool() {
            format!("{:04X}", v)
        } else {
            format!("{:04x}", v)
        }
    };
    let mut s = String::from("\"");
    let parts = rng.below(5) + 1;
    for _ in 0..parts {
        match rng.below(14) {
            0 => s.push_str(&format!("{}u{}", bs, hex4(rng))),
            1 => s.push_str(&format!("{}u{{{}}}", bs, hex4(rng))),
            2 => {
                // proper pair, either form each
                let hi = 0xD800 + rng.below(0x400);
                let lo = 0xDC00 + rng.below(0x400);
                let f = |rng: &mut Rng, v: usize| if rng.chance(1, 4) { format!("{}u{{{:04X}}}", bs, v) } else { format!("{}u{:04x}", bs, v) };
                s.push_str(&f(rng, hi));
                s.push_str(&f(rng, lo));
            }
            3 => {
                // high surrogate followed by something else
                let hi = 0xD800 + rng.below(0x400);
                s.push_str(&format!("{}u{:04X}", bs, hi));
                match rng.below(5) {
                    0 => s.push_str(&format!("{}u{}", bs, hex4(rng))),
                    1 => s.push_str(&format!("{}n", bs)),
                    2 => s.push('x'),
                    3 => s.push_str(&format!("{}u{{{}}}", bs, hex4(rng))),
                    _ => {}
                }
            }
            4 => s.push_str(&format!("{}{}", bs, *rng.pick(&['"', '\\', '/', 'b', 'f', 'n', 'r', 't']))),
            5 => s.push_str(&format!("{}{}", bs, *rng.pick(&['a', 'v', '0', 'x', 'U', '\'', ' ', 'u', 'N']))),
            6 => s.push(*rng.pick(&['\u{0}', '\u{1}', '\n', '\t', '\r', '\u{1f}', '\u{7f}', '\u{c}', '\u{b}'])),
            7 => s.push(gen::random_char(rng)),
            8 => s.push_str(&format!("{}u{}", bs, *rng.pick(&["12", "12G4", "", "1", "{12}", "{12345}", "{1234", "123", "+123", "{}", "{ 1234}"]))),
            9 => s.push_str(&gen::string(rng).replace('"', "").replace('\\', "")),
            10 => s.push_str(&format!("{}{}", bs, bs)),
            11 => s.push_str(&format!("{}u00{}", bs, *rng.pick(&["41", "e9", "7f", "00"]))),
            _ => s.push_str("abc"),
        }
    }
    // ending variants
    match rng.below(12) {
        0 => {}                                  // unterminated
        1 => s.push_str(&format!("{}", bs)),     // backslash at end, unterminated
        2 => s.push_str(&format!("{}\"", bs)),   // escaped quote then EOF
        3 => s.push_str(&format!("{}u\"", bs)),  // \u whose digits swallow the quote
        4 => s.push_str(&format!("{}u12\"", bs)),
        5 => s.push_str(&format!("{}u123\"x\"", bs)),
        6 => s.push_str(&format!("{}u{{123\"}}\"", bs)),
        _ => s.push('"'),
    }
    s.into_bytes()
}

const TOKENS: &[&str] = &[
    "[", "]", "{", "}", ",", ":", "\"a\"", "\"\"", "\"k\":", "1", "-1", "0", "1.5", "1e5", "true", "false", "null", " ", "\n", "\t", "\r", "\x0c", "\\n", "\\t", "\\r", "\\x0C", "\\f", "\\x0c", "\x0b", "tru", "nul", "fals", "True", "NULL", "\"\\", "\"\\u", "'a'", "/*c*/", "//", "\u{feff}", "\\", "x", "-", "+", ".", "e", "\\u0041", "00", "1 2",
];

fn soup(rng: &mut Rng) -> Vec<u8> {
    let n = rng.below(8) + 1;
    let mut s = Vec::new();
    for _ in 0..n {
        s.extend_from_slice(rng.pick(TOKENS).as_bytes());
    }
    s
}

fn corrupt(text: &[u8], rng: &mut Rng) -> Vec<u8> {
    let mut m = text.to_vec();
    if m.is_empty() {
        return m;
    }
    match rng.below(9) {
        0 => {
            let i = rng.below(m.len());
            m.remove(i);
        }
        1 => {
            let i = rng.below(m.len());
            let b = m[i];
            m.insert(i, b);
        }
        2 => {
            if m.len() > 1 {
                let i = rng.below(m.len() - 1);
                m.swap(i, i + 1);
            }
        }
        3 => {
            let i = rng.below(m.len());
            m[i] = *rng.pick(b"[]{},:\"\\0-. e\x00\xff\x80tn");
        }
        4 => {
            let i = rng.below(m.len() + 1);
            let tok = rng.pick(TOKENS).as_bytes().to_vec();
            for (k, b) in tok.iter().enumerate() {
                m.insert(i + k, *b);
            }
        }
        5 => {
            let cut = rng.below(m.len());
            m.truncate(cut);
        }
        6 => {
            let i = rng.below(m.len());
            m[i] ^= 1 << rng.below(8);
        }
        7 => {
            // delete a token-ish span
            let i = rng.below(m.len());
            let j = (i + rng.below(4) + 1).min(m.len());
            m.drain(i..j);
        }
        _ => {
            let tok = rng.pick(TOKENS).as_bytes().to_vec();
            m.extend_from_slice(&tok);
        }
    }
    m
}

pub fn run(ctx: &mut Ctx) {
    if !ctx.miri {
        ctx.next_case();
        exhaustive_short(ctx);
    }
    let n = if ctx.miri { ctx.miri_cases(12) } else { ctx.budget(1_200_000, 25_000_000) };
    for i in 0..n {
        if !ctx.next_case() {
            return;
        }
        let mut rng = ctx.rng.fork();
        // (a) generated RFC documents with spelling variants, then the relaxations
        let t = gen::doc(&mut rng, if i % 3 == 0 { &gen::DOC_FINITE } else { &gen::DocCfg { max_depth: 3, max_fan: 3, nonfinite: false, container_p: 4 } });
        let st = match i % 4 {
            0 => Style { ws: 0, esc: 0, numvar: false },
            1 => Style { ws: 1, esc: 1, numvar: true },
            _ => Style { ws: 2, esc: 2, numvar: true },
        };
        let lead = rng.bool();
        let text = refjson::to_text(&t, &st, &mut rng, lead);
        // self-check of the reference: the writer's text must read back as the tree
        match refjson::parse(&text, Mode::Lenient) {
            Ok(p) if p.tree.same_encoding(&t.text_norm()) || !p.exact => {}
            other => {
                ctx.notes.push(format!("HARNESS-ERROR reference parser disagrees with reference writer on {:?}: {:?}", lossy(&text), other.map(|p| p.tree.show())));
                return;
            }
        }
        judge(ctx, &text, if st.ws >= 2 { "generated-lenient" } else { "generated-rfc" });
        ctx.sample(|| format!("{:?}", lossy(&text)));
        // (b) duplicate keys: splice a member in front
        if let Tree::Obj(v) = &t {
            if let Some((k, _)) = v.first() {
                let mut dup = b"{".to_vec();
                refjson::write_string(k, &mut dup, &st, &mut rng);
                dup.extend_from_slice(b":0,");
                let body = refjson::to_text(&t, &refjson::COMPACT, &mut rng, false);
                dup.extend_from_slice(&body[1..]);
                judge(ctx, &dup, "duplicate-keys");
            }
        }
        // (b2) a wide object (beyond the sizes small-sort shortcuts cover) whose keys arrive in
        // random order, several of them more than once with different values: the last one wins
        if i % 16 == 5 {
            let n = 20 + rng.below(120);
            let keys: Vec<String> = (0..n).map(|k| if rng.chance(1, 4) { gen::key(&mut rng) } else { format!("k{}", rng.below(n) * 7 + k % 3) }).collect();
            let mut m = b"{".to_vec();
            for (j, k) in keys.iter().enumerate() {
                if j > 0 {
                    m.push(b',');
                }
                refjson::write_string(k, &mut m, &refjson::COMPACT, &mut rng);
                m.extend_from_slice(format!(":{}", j).as_bytes());
            }
            m.push(b'}');
            judge(ctx, &m, "wide-object-duplicate-keys");
        }
        // (c) single corruptions of the valid text
        for _ in 0..3 {
            let c = corrupt(&text, &mut rng);
            judge(ctx, &c, "single-corruption");
        }
        // (d) targeted numbers and strings, alone and embedded
        let nt = number_texts(&mut rng);
        judge(ctx, &nt, "number-text");
        let stx = string_texts(&mut rng);
        judge(ctx, &stx, "string-text");
        if i % 2 == 0 {
            let mut emb = b"[".to_vec();
            emb.extend_from_slice(&nt);
            emb.extend_from_slice(b",{\"k\":");
            emb.extend_from_slice(&stx);
            emb.extend_from_slice(b"}]");
            judge(ctx, &emb, "embedded");
            let mut key = b"{".to_vec();
            key.extend_from_slice(&stx);
            key.extend_from_slice(b":");
            key.extend_from_slice(&nt);
            key.extend_from_slice(b"}");
            judge(ctx, &key, "embedded-key");
        }
        // (e) token soups and raw bytes
        let sp = soup(&mut rng);
        judge(ctx, &sp, "token-soup");
        if i % 4 == 0 {
            let l = rng.below(12);
            let raw: Vec<u8> = (0..l).map(|_| rng.next_u64() as u8).collect();
            judge(ctx, &raw, "raw-bytes");
        }
    }
}
