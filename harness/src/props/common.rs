//! helpers shared by property workloads

use crate::gen;
use crate::prng::Rng;
use crate::refcodec;
use crate::refjson;
use crate::tree::Tree;

/// representations of a document: JSONB always; compact JSON text when all numbers are finite
/// (text never starts with a space, as C11 requires)
pub fn reprs(t: &Tree) -> Vec<(&'static str, Vec<u8>)> {
    let mut v = vec![("jsonb", refcodec::encode(t))];
    if t.all_finite() {
        v.push(("text", refjson::compact(t)));
    }
    // what the library's own encoder writes for the document, whenever that is not the
    // documented layout (C01 reports the layout; here the functions are given those bytes, which
    // is what a caller who builds documents with `Value::to_vec` hands them)
    if let Ok(own) = crate::monitor::guard(|| t.to_value().to_vec()) {
        if own != v[0].1 {
            v.push(("jsonb(Value::to_vec)", own));
        }
    }
    v
}

pub fn text_of(t: &Tree, rng: &mut Rng) -> Vec<u8> {
    let st = refjson::Style { ws: 1, esc: 1, numvar: true };
    refjson::to_text(t, &st, rng, false)
}

/// a document and a relative of it (or an unrelated one)
pub fn pair(rng: &mut Rng, cfg: &gen::DocCfg) -> (Tree, Tree) {
    let a = gen::doc(rng, cfg);
    let b = match rng.below(10) {
        0 => gen::doc(rng, cfg),
        1 => a.clone(),
        2 => {
            let x = gen::derive(&a, rng);
            gen::derive(&x, rng)
        }
        _ => gen::derive(&a, rng),
    };
    if rng.bool() {
        (a, b)
    } else {
        (b, a)
    }
}
