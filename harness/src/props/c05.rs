//! C05 — read-only accessors on JSONB bytes agree with the document they encode.

use crate::gen;
use crate::monitor::{guard, Ctx};
use crate::prng::Rng;
use crate::refcodec;
use crate::refops::{self, KP};
use crate::tree::{hex, Num, Tree};
use jsonb::keypath::KeyPath;
use std::borrow::Cow;
use std::cell::RefCell;

pub fn lib_keypath(p: &[KP]) -> Vec<KeyPath<'static>> {
    p.iter()
        .map(|k| match k {
            KP::Index(i) => KeyPath::Index(*i),
            KP::Name(n) => KeyPath::Name(Cow::Owned(n.clone())),
            KP::Quoted(n) => KeyPath::QuotedName(Cow::Owned(n.clone())),
        })
        .collect()
}

fn opt_doc(ctx: &mut Ctx, what: &str, got: Option<Vec<u8>>, exp: Option<Tree>, info: &dyn Fn() -> String) {
    match (got, exp) {
        (None, None) => {}
        (Some(b), Some(t)) => {
            ctx.check_doc(what, &b, &t, info);
        }
        (Some(b), None) => ctx.violation(&format!("{}/some-expected-none", what), || format!("returned {} ; {}", hex(&b), info())),
        (None, Some(t)) => ctx.violation(&format!("{}/none-expected-some", what), || format!("expected {} ; {}", t.show(), info())),
    }
}

fn name_variants(t: &Tree, rng: &mut Rng) -> Vec<String> {
    let mut out: Vec<String> = vec!["".into(), "absent-key".into()];
    if let Tree::Obj(v) = t {
        for (k, _) in v.iter().take(12) {
            out.push(k.clone());
            out.push(k.to_ascii_uppercase());
            out.push(k.to_ascii_lowercase());
            // case variants beyond ASCII must NOT match (only ASCII case is ignored)
            out.push(k.to_uppercase());
            out.push(k.to_lowercase());
            // flip the case of one ASCII letter
            let mut f: Vec<char> = k.chars().collect();
            if !f.is_empty() {
                let i = rng.below(f.len());
                f[i] = if f[i].is_ascii_uppercase() { f[i].to_ascii_lowercase() } else { f[i].to_ascii_uppercase() };
                out.push(f.into_iter().collect());
            }
            // proper prefix and extension
            let mut pre = k.clone();
            pre.pop();
            out.push(pre);
            out.push(format!("{}a", k));
            out.push(format!("{}\u{0}", k));
        }
    }
    out.push(gen::key(rng));
    out.sort();
    out.dedup();
    out
}

/// the same questions asked of the decoded tree (`Value` methods), which is what the byte-level
/// accessors are specified against and what the library itself uses for JSON text input
fn value_methods(ctx: &mut Ctx, t: &Tree, enc: &[u8], names: &[String]) {
    let info = || format!("doc={}", t.show());
    let r = guard(|| {
        let v = jsonb::from_slice(enc).map_err(|e| format!("{:?}", e))?;
        let keys = v.object_keys().map(|k| Tree::from_value(&k).map(|x| x.show()));
        let kinds = (v.is_scalar(), v.is_object(), v.is_array(), v.is_string(), v.is_number(), v.is_boolean(), v.is_null());
        let views = (
            v.as_object().map(|o| o.len()),
            v.as_array().map(|a| a.len()),
            v.as_str().map(|s| s.to_string()),
            v.as_number().map(|n| Num::from_lib(n).canon().show()),
            v.as_i64(),
            v.as_u64(),
            v.as_f64().map(|f| f.to_bits()),
            v.as_bool(),
            v.as_null(),
            (v.is_i64(), v.is_u64(), v.is_f64()),
        );
        let by_name: Vec<Option<String>> = names.iter().map(|n| v.get_by_name_ignore_case(n).map(|x| Tree::from_value(x).map(|y| y.canon().show()).unwrap_or_default())).collect();
        let variant = (v.eq_variant(&v.clone()), v.eq_variant(&jsonb::Value::Null), v == v.clone());
        Ok::<_, String>((v.array_length(), keys, kinds, views, by_name, variant))
    });
    ctx.count("Value methods");
    match r {
        Err(p) => ctx.panic_violation("Value methods", &p, &info),
        Ok(Err(e)) => ctx.violation("from_slice/err-on-valid", || format!("{} ; {}", e, info())),
        Ok(Ok((alen, keys, kinds, views, by_name, variant))) => {
            let n = if let Tree::Num(n) = t { Some(*n) } else { None };
            let exp_kinds = (t.is_scalar(), matches!(t, Tree::Obj(_)), matches!(t, Tree::Arr(_)), matches!(t, Tree::Str(_)), n.is_some(), matches!(t, Tree::Bool(_)), matches!(t, Tree::Null));
            let exp_keys = if let Tree::Obj(v) = t { Some(Ok(Tree::Arr(v.iter().map(|(k, _)| Tree::Str(k.clone())).collect()).show())) } else { None };
            let exp_views = (
                if let Tree::Obj(v) = t { Some(v.len()) } else { None },
                if let Tree::Arr(v) = t { Some(v.len()) } else { None },
                if let Tree::Str(s) = t { Some(s.clone()) } else { None },
                n.map(|x| x.canon().show()),
                n.and_then(|x| refops::as_i64(&x)),
                n.and_then(|x| refops::as_u64(&x)),
                n.map(|x| refops::as_f64(&x).to_bits()),
                if let Tree::Bool(b) = t { Some(*b) } else { None },
                if matches!(t, Tree::Null) { Some(()) } else { None },
                (n.and_then(|x| refops::as_i64(&x)).is_some(), n.and_then(|x| refops::as_u64(&x)).is_some(), n.is_some()),
            );
            if alen != (if let Tree::Arr(v) = t { Some(v.len()) } else { None }) || keys != exp_keys || kinds != exp_kinds {
                ctx.violation("Value::array_length/object_keys/is_*/differs", || format!("array_length={:?} keys={:?} kinds={:?} ; {}", alen, keys, kinds, info()));
            }
            // NaN views: compare with NaN-insensitive float bits
            let same_views = {
                let (a, b) = (&views, &exp_views);
                a.0 == b.0 && a.1 == b.1 && a.2 == b.2 && a.3 == b.3 && a.4 == b.4 && a.5 == b.5 && (a.6 == b.6 || matches!((a.6, b.6), (Some(x), Some(y)) if f64::from_bits(x).is_nan() && f64::from_bits(y).is_nan())) && a.7 == b.7 && a.8 == b.8 && a.9 == b.9
            };
            if !same_views {
                ctx.violation("Value::as_*/differs", || format!("views={:?} expected={:?} ; {}", views, exp_views, info()));
            }
            for (name, got) in names.iter().zip(by_name) {
                let exp = refops::get_by_name(t, name, true).map(|x| x.canon().show());
                if got != exp {
                    ctx.violation("Value::get_by_name_ignore_case/differs", || format!("name={:?} got={:?} expected={:?} ; {}", name, got, exp, info()));
                }
            }
            if variant != (true, matches!(t, Tree::Null), true) {
                ctx.violation("Value::eq_variant/differs", || format!("{:?} ; {}", variant, info()));
            }
        }
    }
}

pub fn check_doc_accessors(ctx: &mut Ctx, t: &Tree, rng: &mut Rng) {
    let enc = refcodec::encode(t);
    let info = || format!("doc={} bytes={}", t.show(), hex(&enc));

    // ---- array_length / type_of / is_* / as_*
    let r = guard(|| {
        (
            jsonb::array_length(&enc),
            jsonb::type_of(&enc).map_err(|e| format!("{:?}", e)),
            (jsonb::is_null(&enc), jsonb::is_boolean(&enc), jsonb::is_number(&enc), jsonb::is_string(&enc), jsonb::is_array(&enc), jsonb::is_object(&enc)),
            (jsonb::as_null(&enc), jsonb::as_bool(&enc), jsonb::as_number(&enc), jsonb::as_str(&enc).map(|s| s.as_bytes().to_vec())),
            (jsonb::is_i64(&enc), jsonb::is_u64(&enc), jsonb::is_f64(&enc)),
        )
    });
    ctx.count("kind-accessors");
    match r {
        Err(p) => ctx.panic_violation("kind-accessors", &p, &info),
        Ok((alen, ty, is, as_, isn)) => {
            let exp_len = if let Tree::Arr(v) = t { Some(v.len()) } else { None };
            if alen != exp_len {
                ctx.violation("array_length/wrong", || format!("{:?} expected {:?} ; {}", alen, exp_len, info()));
            }
            if ty.as_deref() != Ok(refops::type_of(t)) {
                ctx.violation("type_of/wrong", || format!("{:?} expected {} ; {}", ty, refops::type_of(t), info()));
            }
            let exp_is = (
                matches!(t, Tree::Null),
                matches!(t, Tree::Bool(_)),
                matches!(t, Tree::Num(_)),
                matches!(t, Tree::Str(_)),
                matches!(t, Tree::Arr(_)),
                matches!(t, Tree::Obj(_)),
            );
            if is != exp_is {
                ctx.violation("is_kind/wrong", || format!("{:?} expected {:?} ; {}", is, exp_is, info()));
            }
            let (an, ab, anum, astr) = as_;
            if an.is_some() != exp_is.0 {
                ctx.violation("as_null/wrong", || info());
            }
            if ab != (if let Tree::Bool(b) = t { Some(*b) } else { None }) {
                ctx.violation("as_bool/wrong", || format!("{:?} ; {}", ab, info()));
            }
            match (t, &anum) {
                (Tree::Num(n), Some(x)) if Num::from_lib(x).same_encoding(n) => {}
                (Tree::Num(_), _) => ctx.violation("as_number/wrong", || format!("{:?} ; {}", anum, info())),
                (_, Some(_)) => ctx.violation("as_number/some-for-non-number", || format!("{:?} ; {}", anum, info())),
                _ => {}
            }
            match (t, &astr) {
                (Tree::Str(s), Some(b)) if b == s.as_bytes() => {}
                (Tree::Str(_), _) => ctx.violation("as_str/wrong", || format!("{:?} ; {}", astr.as_ref().map(|b| hex(b)), info())),
                (_, Some(b)) => ctx.violation("as_str/some-for-non-string", || format!("{} ; {}", hex(b), info())),
                _ => {}
            }
            if let Some(b) = &astr {
                ctx.check_utf8("as_str", b, &info);
            }
            let exp_isn = match t {
                Tree::Num(n) => (refops::as_i64(n).is_some(), refops::as_u64(n).is_some(), true),
                _ => (false, false, false),
            };
            if isn != exp_isn {
                ctx.violation("is_i64/u64/f64/wrong", || format!("{:?} expected {:?} ; {}", isn, exp_isn, info()));
            }
        }
    }

    // ---- to_* casts
    let r = guard(|| (jsonb::to_bool(&enc).ok(), jsonb::to_i64(&enc).ok(), jsonb::to_u64(&enc).ok(), jsonb::to_f64(&enc).ok(), jsonb::to_str(&enc).ok()));
    ctx.count("to-casts");
    match r {
        Err(p) => ctx.panic_violation("to-casts", &p, &info),
        Ok((tb, ti, tu, tf, ts)) => {
            let eb = match t {
                Tree::Bool(b) => Some(*b),
                Tree::Str(s) => match s.to_lowercase().as_str() {
                    "true" => Some(true),
                    "false" => Some(false),
                    _ => None,
                },
                _ => None,
            };
            if tb != eb {
                ctx.violation("to_bool/wrong", || format!("{:?} expected {:?} ; {}", tb, eb, info()));
            }
            let (ei, eu, ef): (Option<i64>, Option<u64>, Option<f64>) = match t {
                Tree::Num(n) => (refops::as_i64(n), refops::as_u64(n), Some(refops::as_f64(n))),
                Tree::Bool(b) => (Some(*b as i64), Some(*b as u64), Some(if *b { 1.0 } else { 0.0 })),
                Tree::Str(s) => (s.parse().ok(), s.parse().ok(), s.parse().ok()),
                _ => (None, None, None),
            };
            if ti != ei {
                ctx.violation("to_i64/wrong", || format!("{:?} expected {:?} ; {}", ti, ei, info()));
            }
            if tu != eu {
                ctx.violation("to_u64/wrong", || format!("{:?} expected {:?} ; {}", tu, eu, info()));
            }
            let feq = match (tf, ef) {
                (Some(a), Some(b)) => a.to_bits() == b.to_bits() || (a.is_nan() && b.is_nan()),
                (None, None) => true,
                _ => false,
            };
            if !feq {
                ctx.violation("to_f64/wrong", || format!("{:?} expected {:?} ; {}", tf, ef, info()));
            }
            match (t, &ts) {
                (Tree::Str(s), Some(x)) if x == s => {}
                (Tree::Bool(b), Some(x)) if x == if *b { "true" } else { "false" } => {}
                (Tree::Num(n), Some(x)) => {
                    let ok = match n {
                        Num::I(v) => *x == v.to_string(),
                        Num::U(v) => *x == v.to_string(),
                        Num::F(b) => {
                            let f = f64::from_bits(*b);
                            match x.parse::<f64>() {
                                Ok(back) => back.to_bits() == f.to_bits() || (back.is_nan() && f.is_nan()),
                                Err(_) => false,
                            }
                        }
                    };
                    if !ok {
                        ctx.violation("to_str/number-text-wrong", || format!("{:?} ; {}", x, info()));
                    }
                }
                (Tree::Null, None) | (Tree::Arr(_), None) | (Tree::Obj(_), None) => {}
                _ => ctx.violation("to_str/wrong", || format!("{:?} ; {}", ts, info())),
            }
        }
    }

    // ---- get_by_index: all indices 0..len+2 (and a far one)
    let len = if let Tree::Arr(v) = t { v.len() } else { 0 };
    let mut idxs: Vec<usize> = if len <= 600 {
        (0..len + 3).collect()
    } else {
        let mut v: Vec<usize> = vec![0, 1, 254, 255, 256, 257, len - 2, len - 1, len, len + 1, len + 2];
        v.extend([65_534usize, 65_535, 65_536, 65_537].iter().filter(|x| **x < len + 3));
        for _ in 0..12 {
            v.push(rng.below(len));
        }
        v
    };
    idxs.push(usize::MAX);
    idxs.push(1 << 29);
    for i in idxs {
        ctx.count("get_by_index");
        let i_info = || format!("index={} ; {}", i, info());
        match guard(|| jsonb::get_by_index(&enc, i)) {
            Err(p) => ctx.panic_violation("get_by_index", &p, &i_info),
            Ok(got) => opt_doc(ctx, "get_by_index", got, refops::get_by_index(t, i), &i_info),
        }
    }

    // ---- get_by_name
    let names = name_variants(t, rng);
    if t.nodes() < 5000 {
        value_methods(ctx, t, &enc, &names);
    }
    for name in names {
        for ic in [false, true] {
            ctx.count("get_by_name");
            let n_info = || format!("name={:?} ignore_case={} ; {}", name, ic, info());
            match guard(|| jsonb::get_by_name(&enc, &name, ic)) {
                Err(p) => ctx.panic_violation("get_by_name", &p, &n_info),
                Ok(got) => opt_doc(ctx, if ic { "get_by_name(ignore_case)" } else { "get_by_name" }, got, refops::get_by_name(t, &name, ic), &n_info),
            }
        }
    }

    // ---- get_by_keypath
    let mut paths: Vec<Vec<KP>> = vec![vec![]];
    for _ in 0..10 {
        paths.push(gen::keypath_for(t, rng));
    }
    // all single-step paths for the top level
    match t {
        Tree::Arr(v) => {
            let n = v.len() as i32;
            if n <= 600 {
                for i in (-n - 2)..=(n + 2) {
                    paths.push(vec![KP::Index(i)]);
                }
            } else {
                for i in [-n - 1, -n, -n + 1, -257, -256, -255, -1, 0, 255, 256, 257, n - 1, n, n + 1] {
                    paths.push(vec![KP::Index(i)]);
                }
            }
            paths.push(vec![KP::Index(i32::MAX)]);
            paths.push(vec![KP::Index(i32::MIN + 1)]);
        }
        Tree::Obj(v) => {
            for (k, _) in v.iter().take(8) {
                paths.push(vec![KP::Name(k.clone())]);
                paths.push(vec![KP::Quoted(k.clone()), KP::Index(0)]);
                paths.push(vec![KP::Quoted(k.clone()), KP::Index(-1)]);
            }
        }
        _ => {}
    }
    for p in paths {
        ctx.count("get_by_keypath");
        let lp = lib_keypath(&p);
        let p_info = || format!("keypath={:?} ; {}", p, info());
        match guard(|| jsonb::get_by_keypath(&enc, lp.iter())) {
            Err(pn) => ctx.panic_violation("get_by_keypath", &pn, &p_info),
            Ok(got) => opt_doc(ctx, "get_by_keypath", got, refops::get_by_keypath(t, &p), &p_info),
        }
    }

    // ---- object_keys / object_each / array_values
    ctx.count("object_keys");
    match guard(|| jsonb::object_keys(&enc)) {
        Err(p) => ctx.panic_violation("object_keys", &p, &info),
        Ok(got) => {
            let exp = if let Tree::Obj(v) = t { Some(Tree::Arr(v.iter().map(|(k, _)| Tree::Str(k.clone())).collect())) } else { None };
            opt_doc(ctx, "object_keys", got, exp, &info);
        }
    }
    ctx.count("object_each");
    match guard(|| jsonb::object_each(&enc)) {
        Err(p) => ctx.panic_violation("object_each", &p, &info),
        Ok(got) => match (got, t) {
            (Some(pairs), Tree::Obj(v)) => {
                if pairs.len() != v.len() {
                    ctx.violation("object_each/count", || format!("{} pairs expected {} ; {}", pairs.len(), v.len(), info()));
                } else {
                    for ((kb, vb), (k, x)) in pairs.iter().zip(v) {
                        if kb != k.as_bytes() {
                            ctx.violation("object_each/key", || format!("key {} expected {:?} ; {}", hex(kb), k, info()));
                        }
                        ctx.check_doc("object_each", vb, x, &info);
                    }
                }
            }
            (None, Tree::Obj(_)) => ctx.violation("object_each/none-for-object", || info()),
            (Some(_), _) => ctx.violation("object_each/some-for-non-object", || info()),
            (None, _) => {}
        },
    }
    ctx.count("array_values");
    match guard(|| jsonb::array_values(&enc)) {
        Err(p) => ctx.panic_violation("array_values", &p, &info),
        Ok(got) => match (got, t) {
            (Some(items), Tree::Arr(v)) => {
                if items.len() != v.len() {
                    ctx.violation("array_values/count", || format!("{} items expected {} ; {}", items.len(), v.len(), info()));
                } else {
                    for (b, x) in items.iter().zip(v) {
                        ctx.check_doc("array_values", b, x, &info);
                    }
                }
            }
            (None, Tree::Arr(_)) => ctx.violation("array_values/none-for-array", || info()),
            (Some(_), _) => ctx.violation("array_values/some-for-non-array", || info()),
            (None, _) => {}
        },
    }

    // ---- exists_all_keys / exists_any_keys
    let cands = name_variants(t, rng);
    for _ in 0..6 {
        let n = rng.below(4);
        let mut keys: Vec<Vec<u8>> = (0..n).map(|_| rng.pick(&cands).as_bytes().to_vec()).collect();
        if let Tree::Arr(v) = t {
            // string elements as keys
            for x in v.iter().take(3) {
                if let (Tree::Str(s), true) = (x, rng.bool()) {
                    keys.push(s.as_bytes().to_vec());
                }
            }
        }
        if rng.chance(1, 10) {
            // not UTF-8: matches nothing, wherever it stands in the list
            let at = rng.below(keys.len() + 1);
            keys.insert(at, rng.pick(&[&[0xffu8, 0xfe][..], &[0xc3], &[b'a', 0x80]]).to_vec());
        }
        ctx.count("exists_keys");
        let k_info = || format!("keys={:?} ; {}", keys.iter().map(|k| String::from_utf8_lossy(k).to_string()).collect::<Vec<_>>(), info());
        match guard(|| (jsonb::exists_all_keys(&enc, keys.iter().map(|k| k.as_slice())), jsonb::exists_any_keys(&enc, keys.iter().map(|k| k.as_slice())))) {
            Err(p) => ctx.panic_violation("exists_keys", &p, &k_info),
            Ok((all, any)) => {
                let e_all = keys.iter().all(|k| std::str::from_utf8(k).map(|s| refops::exists_key(t, s)).unwrap_or(false));
                let e_any = keys.iter().any(|k| std::str::from_utf8(k).map(|s| refops::exists_key(t, s)).unwrap_or(false));
                if all != e_all {
                    ctx.violation("exists_all_keys/wrong", || format!("{} expected {} ; {}", all, e_all, k_info()));
                }
                if any != e_any {
                    ctx.violation("exists_any_keys/wrong", || format!("{} expected {} ; {}", any, e_any, k_info()));
                }
            }
        }
    }

    // ---- traverse_check_string
    let mut all = Vec::new();
    refops::all_strings(t, &mut all);
    all.sort();
    let seen: RefCell<Vec<Vec<u8>>> = RefCell::new(Vec::new());
    ctx.count("traverse_check_string");
    match guard(|| {
        jsonb::traverse_check_string(&enc, |s| {
            seen.borrow_mut().push(s.to_vec());
            false
        })
    }) {
        Err(p) => ctx.panic_violation("traverse_check_string", &p, &info),
        Ok(res) => {
            let mut got: Vec<Vec<u8>> = seen.into_inner();
            got.sort();
            let exp: Vec<Vec<u8>> = all.iter().map(|s| s.as_bytes().to_vec()).collect();
            if res {
                ctx.violation("traverse_check_string/true-for-false-closure", || info());
            }
            if got != exp {
                ctx.violation("traverse_check_string/visits", || {
                    format!("visited {:?} expected {:?} ; {}", got.iter().map(|b| String::from_utf8_lossy(b).to_string()).collect::<Vec<_>>(), all, info())
                });
            }
        }
    }
    // a closure matching one chosen string
    let target: String = if !all.is_empty() && rng.chance(3, 4) { rng.pick(&all).clone() } else { gen::key(rng) };
    match guard(|| jsonb::traverse_check_string(&enc, |s| s == target.as_bytes())) {
        Err(p) => ctx.panic_violation("traverse_check_string", &p, &info),
        Ok(res) => {
            let e = all.contains(&target);
            if res != e {
                ctx.violation("traverse_check_string/match", || format!("target={:?} result={} expected={} ; {}", target, res, e, info()));
            }
        }
    }
    if t.nodes() > 1 {
        ctx.distinct(t.hash64());
    }
}

pub fn run(ctx: &mut Ctx) {
    let small = if ctx.miri { Vec::new() } else { gen::enumerate_small(4) };
    for (i, t) in small.iter().enumerate() {
        if i % ctx.nshards != ctx.shard {
            continue;
        }
        if !ctx.next_case() {
            return;
        }
        let mut rng = ctx.rng.fork();
        check_doc_accessors(ctx, t, &mut rng);
    }
    ctx.exhaustive.insert("small_scope(<=4 nodes) x all listed accessor arguments".into(), !ctx.miri);
    if ctx.shard == 0 && ctx.tier == crate::monitor::Tier::Thorough && !ctx.miri {
        ctx.next_case();
        ctx.count("huge_payload_docs");
        let mut rng = ctx.rng.fork();
        check_doc_accessors(ctx, &gen::huge_payload_doc(), &mut rng);
    }
    // element and member counts around 2^12 and (thorough) 2^16, once each
    if ctx.shard == 1 % ctx.nshards && !ctx.miri {
        let mut sizes = vec![4_096usize, 4_097, 5_000];
        if ctx.tier == crate::monitor::Tier::Thorough {
            sizes.extend([65_536, 65_537]);
        }
        for n in sizes {
            ctx.next_case();
            ctx.count("wide_docs");
            let mut rng = ctx.rng.fork();
            let arr = Tree::Arr((0..n).map(|k| if k % 9 == 0 { Tree::Str(format!("s{}", k)) } else { Tree::Num(crate::tree::Num::U(k as u64)) }).collect());
            check_doc_accessors(ctx, &arr, &mut rng);
            let obj = Tree::obj_from((0..n).map(|k| (format!("k{:06}", k), if k % 4 == 0 { Tree::Null } else { Tree::Num(crate::tree::Num::U(k as u64)) })).collect());
            check_doc_accessors(ctx, &obj, &mut rng);
        }
    }
    let mon = super::routes::Monitor::new(super::routes::ACCESSORS);
    let n = if ctx.miri { ctx.miri_cases(3) } else { ctx.budget(400_000, 8_000_000) };
    for i in 0..n {
        if !ctx.next_case() {
            return;
        }
        let mut rng = ctx.rng.fork();
        let t = match i % 6 {
            _ if i % 4001 == 7 && !ctx.miri => gen::big_doc(&mut rng, i % 3 == 0),
            0 => gen::doc(&mut rng, &gen::DocCfg { max_depth: 6, max_fan: 4, nonfinite: true, container_p: 6 }),
            1 => gen::doc(&mut rng, &gen::DocCfg { max_depth: 2, max_fan: 10, nonfinite: true, container_p: 3 }),
            2 => gen::scalar(&mut rng, true),
            _ => gen::doc(&mut rng, &gen::DOC_DEFAULT),
        };
        check_doc_accessors(ctx, &t, &mut rng);
        if i % 3 == 1 && t.nodes() < 300 {
            let args = super::routes::plain_args(&t, &mut rng);
            mon.check(ctx, &t, &t, &args, &mut rng);
        }
        ctx.sample(|| t.show());
    }
}
