//! C14 — the comparable key sorts bytewise exactly as compare orders documents.

use super::c04::batch;
use super::common::*;
use crate::gen;
use crate::monitor::{guard, Ctx};
use crate::refcodec;
use crate::refnum;
use crate::refops;
use crate::tree::{hex, Num, Tree};
use std::cmp::Ordering;

fn key_of(ctx: &mut Ctx, t: &Tree) -> Option<Vec<u8>> {
    let enc = refcodec::encode(t);
    ctx.count("convert_to_comparable");
    match guard(|| {
        let mut k = Vec::new();
        jsonb::convert_to_comparable(&enc, &mut k);
        k
    }) {
        Ok(k) => Some(k),
        Err(p) => {
            ctx.panic_violation("convert_to_comparable", &p, &|| format!("doc={}", t.show()));
            None
        }
    }
}

/// Walk both documents in key order to the first leaf where either the values differ or the
/// key images differ (the key stores each number as the image of its nearest double), and name
/// the root cause. None = no difference found.
fn classify(a: &Tree, b: &Tree, depth: usize, followed: bool) -> Option<String> {
    match (a, b) {
        (Tree::Num(x), Tree::Num(y)) => {
            let (fx, fy) = (refops::as_f64(x), refops::as_f64(y));
            let v_eq = refnum::eq(x, y);
            // the key image of a number is its nearest double, with both zeros sharing one image
            let i_eq = fx.to_bits() == fy.to_bits() || (fx.is_nan() && fy.is_nan()) || (fx == 0.0 && fy == 0.0);
            match (v_eq, i_eq) {
                (true, true) => None,
                (true, false) => Some(if fx == 0.0 && fy == 0.0 { "equal-numbers/signed-zero".into() } else { "equal-numbers/different-image".into() }),
                (false, true) => Some("distinct-numbers/same-f64-image".into()),
                (false, false) => Some("distinct-numbers/distinct-f64-image".into()),
            }
        }
        (Tree::Str(x), Tree::Str(y)) => {
            if x == y {
                return None;
            }
            let prefix = x.as_bytes().starts_with(y.as_bytes()) || y.as_bytes().starts_with(x.as_bytes());
            Some(if prefix && followed {
                // the bytes after the common prefix meet the next element's depth marker
                // (a byte <= this element's depth): the known root cause needs ext byte <= depth
                let ext = if x.len() > y.len() { x.as_bytes()[y.len()] } else { y.as_bytes()[x.len()] };
                if (ext as usize) <= depth {
                    "strings/proper-prefix-followed-by-more/extension-byte<=depth-marker".into()
                } else {
                    "strings/proper-prefix-followed-by-more/extension-byte>depth-marker".into()
                }
            } else if prefix {
                "strings/proper-prefix-at-end".into()
            } else {
                "strings/other".into()
            })
        }
        (Tree::Arr(x), Tree::Arr(y)) => {
            if depth >= 255 {
                return Some("depth>=255".into());
            }
            for (i, (p, q)) in x.iter().zip(y.iter()).enumerate() {
                let more = i + 1 < x.len() || i + 1 < y.len() || followed;
                if let Some(c) = classify(p, q, depth + 1, more) {
                    return Some(c);
                }
            }
            if x.len() != y.len() {
                Some("array-length-only".into())
            } else {
                None
            }
        }
        (Tree::Obj(x), Tree::Obj(y)) => {
            if depth >= 255 {
                return Some("depth>=255".into());
            }
            for (i, ((k, p), (l, q))) in x.iter().zip(y.iter()).enumerate() {
                if k != l {
                    let prefix = k.as_bytes().starts_with(l.as_bytes()) || l.as_bytes().starts_with(k.as_bytes());
                    if prefix {
                        let ext = if k.len() > l.len() { k.as_bytes()[l.len()] } else { l.as_bytes()[k.len()] };
                        return Some(if (ext as usize) <= depth + 1 { "keys/proper-prefix/extension-byte<=depth-marker".into() } else { "keys/proper-prefix/extension-byte>depth-marker".into() });
                    }
                    return Some("keys/other".into());
                }
                let more = i + 1 < x.len() || i + 1 < y.len() || followed;
                if let Some(c) = classify(p, q, depth + 1, more) {
                    return Some(c);
                }
            }
            if x.len() != y.len() {
                Some("object-size-only".into())
            } else {
                None
            }
        }
        (x, y) => {
            if std::mem::discriminant(x) != std::mem::discriminant(y) || x != y {
                Some("kind-differs".into())
            } else {
                None
            }
        }
    }
}

pub fn check_pair(ctx: &mut Ctx, a: &Tree, b: &Tree) {
    let (ka, kb) = match (key_of(ctx, a), key_of(ctx, b)) {
        (Some(x), Some(y)) => (x, y),
        _ => return,
    };
    ctx.count("pairs");
    ctx.evals += 1;
    let key_order = ka.cmp(&kb);
    let expect = refops::compare(a, b);
    // the library's own compare (C14 is stated relative to it; C04 ties it to the documented order)
    let lib = guard(|| jsonb::compare(&refcodec::encode(a), &refcodec::encode(b))).ok().and_then(|r| r.ok());
    if key_order != expect || Some(key_order) != lib {
        let class = classify(a, b, 0, false).unwrap_or_else(|| "no-difference-found".into());
        ctx.violation(&format!("key-order-differs/{}", class), || {
            format!("key order={:?} compare={:?} documented order={:?} ; a={} b={} key_a={} key_b={}", key_order, lib, expect, a.show(), b.show(), hex(&ka), hex(&kb))
        });
    }
    if a.nodes() + b.nodes() > 2 {
        ctx.distinct(crate::prng::mix(a.hash64(), b.hash64() ^ 0x14));
    }
}

pub fn run(ctx: &mut Ctx) {
    let small = gen::enumerate_small(if ctx.miri { 2 } else { 3 });
    let mut k = 0usize;
    for a in small.iter() {
        for b in small.iter() {
            k += 1;
            if k % ctx.nshards != ctx.shard {
                continue;
            }
            if !ctx.next_case() {
                return;
            }
            check_pair(ctx, a, b);
        }
    }
    ctx.exhaustive.insert("all ordered pairs of documents with <=3 nodes".into(), !ctx.miri);
    let mon = super::routes::Monitor::new(&["convert_to_comparable", "compare"]);
    let n = ctx.budget(400_000, 8_000_000);
    for i in 0..n {
        if !ctx.next_case() {
            return;
        }
        let mut rng = ctx.rng.fork();
        let (a, b) = pair(&mut rng, if i % 3 == 0 { &gen::DOC_DEFAULT } else { &gen::DOC_SMALL });
        check_pair(ctx, &a, &b);
        if i % 5 == 2 && a.nodes() < 300 {
            // composite keys: the key of a document is appended to a buffer that already holds
            // the key of an earlier column, for the JSONB and for the text form of the document
            let prefix = [0x00u8, 0x3C, 0xFF, 0x01];
            let mut forms = vec![crate::refcodec::encode(&a)];
            if a.all_finite() {
                forms.push(crate::refjson::compact(&a));
            }
            for input in forms {
                let r = guard(|| {
                    let mut fresh = Vec::new();
                    jsonb::convert_to_comparable(&input, &mut fresh);
                    let mut buf = prefix.to_vec();
                    jsonb::convert_to_comparable(&input, &mut buf);
                    (fresh, buf)
                });
                match r {
                    Err(p) => ctx.panic_violation("convert_to_comparable", &p, &|| format!("doc={}", a.show())),
                    Ok((fresh, buf)) => {
                        if buf.len() < 4 || buf[..4] != prefix || buf[4..] != fresh[..] {
                            ctx.violation("convert_to_comparable/not-appended", || format!("buffer held {} ; after the call {} ; key into an empty buffer {} ; input {} ; doc={}", crate::tree::hex(&prefix), crate::tree::hex(&buf), crate::tree::hex(&fresh), crate::tree::hex(&input), a.show()));
                        }
                    }
                }
            }
        }
        if i % 3 == 1 && a.nodes() < 300 && b.nodes() < 300 {
            // the key of a document given as text, and of documents in a reused buffer
            let args = super::routes::plain_args(&a, &mut rng);
            mon.check(ctx, &a, &b, &args, &mut rng);
            let s = gen::scalar(&mut rng, false);
            mon.check(ctx, &s, &a, &args, &mut rng);
        }
        if i % 16 == 5 {
            let (o1, o2) = gen::resplit_objects(&mut rng);
            check_pair(ctx, &o1, &o2);
        }
        // targeted: strings that are prefixes of one another followed by further elements
        if i % 4 == 0 {
            let s = gen::string(&mut rng);
            let ext = format!("{}{}", s, *rng.pick(&["a", "\u{0}", "\u{1}", "\u{4}", "\u{7f}", "é", "\u{ff}", "\t", "\n", " ", "!", "(", "0"]));
            let tail = gen::scalar(&mut rng, true);
            check_pair(ctx, &Tree::Arr(vec![Tree::Str(s.clone()), tail.clone()]), &Tree::Arr(vec![Tree::Str(ext.clone()), tail.clone()]));
            check_pair(ctx, &Tree::Obj(vec![(s.clone(), tail.clone())]), &Tree::Obj(vec![(ext.clone(), tail.clone())]));
            check_pair(ctx, &Tree::Str(s.clone()), &Tree::Str(ext.clone()));
            check_pair(ctx, &Tree::Arr(vec![Tree::Str(s)]), &Tree::Arr(vec![Tree::Str(ext)]));
        }
        if i % 16 == 0 {
            let docs = batch(&mut rng, 24);
            for x in 0..docs.len() {
                for y in x + 1..docs.len() {
                    check_pair(ctx, &docs[x], &docs[y]);
                }
            }
        }
        ctx.sample(|| format!("{} vs {}", a.show(), b.show()));
    }
    // nesting depth around the u8 depth marker
    if ctx.shard == 0 && !ctx.miri {
        for d in [100usize, 254, 255, 256, 257, 300] {
            ctx.next_case();
            let a = gen::deep(d, 0, Tree::Num(Num::U(1)));
            let b = gen::deep(d, 0, Tree::Num(Num::U(2)));
            check_pair(ctx, &a, &b);
            let c = gen::deep(d, 2, Tree::Str("a".into()));
            let e = gen::deep(d, 2, Tree::Str("b".into()));
            check_pair(ctx, &c, &e);
        }
    }
}
