//! C12 — containment follows the PostgreSQL @> rules, using the same equality as compare.

use super::common::*;
use crate::gen;
use crate::monitor::{guard, Ctx};
use crate::refops;
use crate::tree::{hex, Num, Tree};
use std::cmp::Ordering;

fn lib_contains(ctx: &mut Ctx, a: &[u8], b: &[u8], info: &dyn Fn() -> String) -> Option<bool> {
    ctx.count("contains.calls");
    ctx.evals += 1;
    match guard(|| jsonb::contains(a, b)) {
        Err(p) => {
            ctx.panic_violation("contains", &p, info);
            None
        }
        Ok(r) => Some(r),
    }
}

fn involves_retyped_numbers(a: &Tree, b: &Tree) -> &'static str {
    // signature discriminator: does the pair contain numerically equal numbers in different encodings?
    fn nums(t: &Tree, out: &mut Vec<Num>) {
        match t {
            Tree::Num(n) => out.push(*n),
            Tree::Arr(v) => v.iter().for_each(|x| nums(x, out)),
            Tree::Obj(v) => v.iter().for_each(|(_, x)| nums(x, out)),
            _ => {}
        }
    }
    let (mut x, mut y) = (Vec::new(), Vec::new());
    nums(a, &mut x);
    nums(b, &mut y);
    for p in &x {
        for q in &y {
            if crate::refnum::eq(p, q) && !p.same_encoding(q) {
                return "numbers-equal-different-encoding";
            }
        }
    }
    "other"
}

pub fn check_pair(ctx: &mut Ctx, a: &Tree, b: &Tree) {
    let expect = refops::contains(a, b);
    for (la, ba) in &reprs(a) {
        for (lb, bb) in &reprs(b) {
            let info = || format!("a={} ({}) b={} ({}) a_bytes={} b_bytes={}", a.show(), la, b.show(), lb, hex(ba), hex(bb));
            if let Some(r) = lib_contains(ctx, ba, bb, &info) {
                if r != expect {
                    let kind = if *la == "jsonb" && *lb == "jsonb" { "jsonb" } else { "with-text" };
                    ctx.violation(&format!("contains/wrong/{}/{}", kind, involves_retyped_numbers(a, b)), || format!("contains={} documented rules give {} ; {}", r, expect, info()));
                }
            }
        }
    }
    if a.is_scalar() && b.is_scalar() {
        let eq = refops::compare(a, b) == Ordering::Equal;
        if expect != eq {
            ctx.notes.push("HARNESS-ERROR reference contains disagrees with reference compare on scalars".into());
        }
    }
    if a.nodes() + b.nodes() > 2 {
        ctx.distinct(crate::prng::mix(a.hash64(), b.hash64() ^ 0x55));
    }
}

/// derive b from a so that a contains b (by construction): drop members / elements, reorder, duplicate
fn sub_doc(a: &Tree, rng: &mut crate::prng::Rng, top: bool) -> Tree {
    match a {
        Tree::Arr(v) => {
            let mut out: Vec<Tree> = Vec::new();
            for x in v {
                if rng.chance(2, 3) {
                    out.push(sub_doc(x, rng, false));
                }
                if rng.chance(1, 6) {
                    out.push(sub_doc(x, rng, false)); // duplicate
                }
            }
            if out.len() > 1 && rng.bool() {
                let i = rng.below(out.len());
                let j = rng.below(out.len());
                out.swap(i, j);
            }
            Tree::Arr(out)
        }
        Tree::Obj(v) => {
            let mut out = Vec::new();
            for (k, x) in v {
                if rng.chance(2, 3) {
                    out.push((k.clone(), sub_doc(x, rng, false)));
                }
            }
            Tree::Obj(out)
        }
        Tree::Num(n) if rng.chance(1, 3) => {
            // re-type keeping the value
            let m = match n {
                Num::U(v) if *v <= i64::MAX as u64 => Num::I(*v as i64),
                Num::U(v) if (*v as f64) as u128 == *v as u128 && *v < (1 << 53) => Num::f(*v as f64),
                Num::I(v) if *v >= 0 => Num::U(*v as u64),
                Num::I(v) if v.unsigned_abs() < (1 << 53) => Num::f(*v as f64),
                Num::F(b) => {
                    let f = f64::from_bits(*b);
                    if f.is_finite() && f.fract() == 0.0 && f.abs() < 9e15 {
                        if f >= 0.0 { Num::U(f as u64) } else { Num::I(f as i64) }
                    } else {
                        *n
                    }
                }
                x => *x,
            };
            let _ = top;
            Tree::Num(m)
        }
        x => x.clone(),
    }
}

pub fn run(ctx: &mut Ctx) {
    let small = gen::enumerate_small(if ctx.miri { 2 } else { 3 });
    let mut k = 0usize;
    for a in small.iter() {
        for b in small.iter() {
            k += 1;
            if k % ctx.nshards != ctx.shard {
                continue;
            }
            if !ctx.next_case() {
                return;
            }
            check_pair(ctx, a, b);
        }
    }
    ctx.exhaustive.insert("all ordered pairs of documents with <=3 nodes".into(), !ctx.miri);
    // every pairing of the boundary numbers, as array element against array element and as
    // bare scalars: containment of numbers is numeric equality, whatever the encodings
    let mut nums: Vec<Num> = Vec::new();
    for v in gen::int_pool() {
        if v >= 0 {
            nums.push(Num::U(v as u64));
        }
        if v <= i64::MAX as i128 {
            nums.push(Num::I(v as i64));
        }
    }
    for f in gen::float_pool() {
        nums.push(Num::f(f));
    }
    if !ctx.miri {
        let mut k = 0usize;
        for a in nums.iter() {
            k += 1;
            if k % ctx.nshards != ctx.shard {
                continue;
            }
            if !ctx.next_case() {
                return;
            }
            for b in nums.iter() {
                let (ta, tb) = (Tree::Num(*a), Tree::Num(*b));
                let (ea, eb) = (crate::refcodec::encode(&Tree::Arr(vec![Tree::Null, ta.clone()])), crate::refcodec::encode(&Tree::Arr(vec![tb.clone()])));
                let expect = crate::refnum::eq(a, b);
                let info = || format!("a=[null,{}] b=[{}]", a.show(), b.show());
                if let Some(r) = lib_contains(ctx, &ea, &eb, &info) {
                    if r != expect {
                        ctx.violation(&format!("contains/wrong/jsonb/{}", involves_retyped_numbers(&ta, &tb)), || format!("contains={} but the numbers are {} ; {}", r, if expect { "equal" } else { "different" }, info()));
                    }
                }
            }
        }
        ctx.exhaustive.insert("all ordered pairs of boundary numbers as array elements".into(), true);
    }
    let mon = super::routes::Monitor::new(&["contains"]);
    let n = ctx.budget(500_000, 10_000_000);
    for i in 0..n {
        if !ctx.next_case() {
            return;
        }
        let mut rng = ctx.rng.fork();
        let a = gen::doc(&mut rng, if i % 3 == 0 { &gen::DOC_DEFAULT } else { &gen::DOC_SMALL });
        // reflexive
        check_pair(ctx, &a, &a);
        if !refops::contains(&a, &a) && !has_nan(&a) {
            ctx.notes.push(format!("HARNESS-ERROR reference contains is not reflexive on {}", a.show()));
        }
        // chain a >= b >= c by construction: transitivity of the library's answers
        let b = sub_doc(&a, &mut rng, true);
        let c = sub_doc(&b, &mut rng, true);
        check_pair(ctx, &a, &b);
        check_pair(ctx, &b, &c);
        check_pair(ctx, &a, &c);
        if i % 4 == 1 && a.nodes() < 300 {
            let args = super::routes::plain_args(&a, &mut rng);
            mon.check(ctx, &a, &b, &args, &mut rng);
        }
        if i % 101 == 9 && !ctx.miri {
            // a left array of hundreds of elements (beyond what a linear scan is kept for) against
            // right arrays whose elements equal left ones in another encoding, repeat left
            // elements more often than the left has them, or are absent
            let n = *rng.pick(&[200usize, 256, 257, 258, 300, 1000]);
            let left: Vec<Tree> = (0..n).map(|k| if k % 3 == 0 { Tree::Num(*rng.pick(&nums)) } else if k % 3 == 1 { Tree::Num(gen::num(&mut rng, false)) } else { gen::scalar(&mut rng, false) }).collect();
            let mut right: Vec<Tree> = Vec::new();
            for _ in 0..(1 + rng.below(4)) {
                let x = rng.pick(&left).clone();
                right.push(match rng.below(3) {
                    0 => x,
                    1 => gen::derive(&x, &mut rng),
                    _ => gen::derive(&gen::derive(&x, &mut rng), &mut rng),
                });
            }
            check_pair(ctx, &Tree::Arr(left.clone()), &Tree::Arr(right.clone()));
            check_pair(ctx, &Tree::Obj(vec![("k".into(), Tree::Arr(left))]), &Tree::Obj(vec![("k".into(), Tree::Arr(right))]));
        }
        if i % 16 == 5 {
            let (o1, o2) = gen::resplit_objects(&mut rng);
            check_pair(ctx, &o1, &o2);
            check_pair(ctx, &Tree::Arr(vec![o1.clone()]), &Tree::Arr(vec![o2.clone()]));
            // a member that is an array on the left and one of its elements on the right is
            // NOT contained (a bare scalar matches only at the top level)
            if let Tree::Arr(v) = &a {
                if let Some(x) = v.iter().find(|x| x.is_scalar()) {
                    check_pair(ctx, &Tree::Obj(vec![("k".into(), a.clone())]), &Tree::Obj(vec![("k".into(), x.clone())]));
                    check_pair(ctx, &Tree::Arr(vec![Tree::Obj(vec![("k".into(), a.clone())])]), &Tree::Arr(vec![Tree::Obj(vec![("k".into(), x.clone())])]));
                }
            }
        }
        if i % 7 == 3 {
            // order and multiplicity are ignored: a right array longer than the left one, made of
            // the left one's elements repeated and shuffled, is still contained
            if let Tree::Arr(v) = &a {
                if !v.is_empty() && v.len() < 20 {
                    let m = v.len() + 1 + rng.below(4);
                    let r: Vec<Tree> = (0..m).map(|_| rng.pick(v).clone()).collect();
                    check_pair(ctx, &a, &Tree::Arr(r.clone()));
                    check_pair(ctx, &Tree::Arr(vec![a.clone()]), &Tree::Arr(vec![Tree::Arr(r)]));
                }
            }
        }
        let (ea, eb, ec) = (crate::refcodec::encode(&a), crate::refcodec::encode(&b), crate::refcodec::encode(&c));
        let info = || format!("a={} b={} c={}", a.show(), b.show(), c.show());
        if let (Some(ab), Some(bc), Some(ac)) = (lib_contains(ctx, &ea, &eb, &info), lib_contains(ctx, &eb, &ec, &info), lib_contains(ctx, &ea, &ec, &info)) {
            if ab && bc && !ac {
                ctx.violation("contains/not-transitive", || info());
            }
        }
        // unrelated / derived pairs
        let d = gen::derive(&a, &mut rng);
        check_pair(ctx, &a, &d);
        check_pair(ctx, &d, &a);
        // array vs bare scalar (top-level special case) and nested non-special case
        if let Tree::Arr(v) = &a {
            if !v.is_empty() {
                let e = rng.pick(v).clone();
                check_pair(ctx, &a, &e);
                check_pair(ctx, &Tree::Obj(vec![("k".into(), a.clone())]), &Tree::Obj(vec![("k".into(), e.clone())]));
                check_pair(ctx, &Tree::Arr(vec![a.clone()]), &Tree::Arr(vec![e]));
            }
        }
        ctx.sample(|| format!("contains({}, {}) = {}", a.show(), b.show(), refops::contains(&a, &b)));
    }
}

fn has_nan(_t: &Tree) -> bool {
    false // NaN == NaN under compare's equality, so reflexivity holds with NaN too
}
