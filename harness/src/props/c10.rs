//! C10 — decoding untrusted bytes never panics and never yields ill-formed strings.

use crate::gen;
use crate::monitor::{guard, Ctx};
use crate::prng::Rng;
use crate::refcodec;
use crate::refjson;
use crate::tree::{hex, lossy, Tree};

/// outcome classes for the evidence histogram
fn observe(ctx: &mut Ctx, what: &str, bytes: &[u8], fault: &str) -> Option<Result<Tree, ()>> {
    let info = || format!("fault={} input={}", fault, hex(bytes));
    let r = guard(|| {
        let r = if what == "from_slice" { jsonb::from_slice(bytes) } else { jsonb::parse_jsonb(bytes) };
        match r {
            Ok(v) => {
                let t = Tree::from_value(&v);
                // Under Miri the returned value is also *used* (formatted), so that an ill-formed
                // str is flagged as undefined behaviour by the interpreter, independently of the
                // UTF-8 monitor.
                #[cfg(miri)]
                {
                    let _ = format!("{:?}", v);
                }
                Ok(t)
            }
            Err(_) => Err(()),
        }
    });
    match r {
        Err(p) => {
            ctx.count(&format!("{}.outcome.panic", what));
            ctx.panic_violation(what, &p, &info);
            None
        }
        Ok(Err(())) => {
            ctx.count(&format!("{}.outcome.err", what));
            Some(Err(()))
        }
        Ok(Ok(Err(bad))) => {
            ctx.count(&format!("{}.outcome.ok_bad_utf8", what));
            ctx.violation(&format!("{}/non-utf8-string", what), || format!("{} ; {}", bad, info()));
            None
        }
        Ok(Ok(Ok(t))) => {
            ctx.count(&format!("{}.outcome.ok", what));
            Some(Ok(t))
        }
    }
}

fn hostile(ctx: &mut Ctx, bytes: &[u8], fault: &str) {
    ctx.evals += 1;
    ctx.count(&format!("fault.{}", fault));
    observe(ctx, "from_slice", bytes, fault);
    observe(ctx, "parse_jsonb", bytes, fault);
    ctx.distinct(crate::prng::hash_bytes(bytes));
}

/// the undamaged encoding itself: both decoders return the document
fn whole(ctx: &mut Ctx, enc: &[u8], doc: &Tree) {
    ctx.count("valid_encodings_decoded");
    for what in ["from_slice", "parse_jsonb"] {
        match observe(ctx, what, enc, "none(valid encoding)") {
            Some(Ok(t)) => {
                if !t.same_encoding(doc) {
                    ctx.violation(&format!("{}/misreads-valid-encoding", what), || format!("{} read {} from the encoding of {}: {}", what, t.show(), doc.show(), hex(enc)));
                }
            }
            Some(Err(())) => ctx.violation(&format!("{}/rejects-valid-encoding", what), || format!("{} rejected the encoding of {}: {}", what, doc.show(), hex(enc))),
            None => {}
        }
    }
}

fn prefixes(ctx: &mut Ctx, enc: &[u8], doc: &Tree, rng: &mut Rng, all: bool) {
    // every cut for small encodings; for large ones the first 80 cuts, the last 40, the cuts
    // around the end of the top-level entry table and a random sample
    let cuts: Vec<usize> = if all {
        (0..enc.len()).collect()
    } else {
        let n = enc.len();
        let count = (u32::from_be_bytes([enc[0], enc[1], enc[2], enc[3]]) & 0x1FFF_FFFF) as usize;
        let table_end = (4 + 4 * count * if enc[0] & 0xE0 == 0x40 { 2 } else { 1 }).min(n - 1);
        let mut v: Vec<usize> = (0..80.min(n)).collect();
        v.extend(n.saturating_sub(40)..n);
        v.extend(table_end.saturating_sub(9)..(table_end + 9).min(n));
        for _ in 0..200 {
            v.push(rng.below(n));
        }
        v.sort();
        v.dedup();
        v
    };
    for cut in cuts {
        let p = &enc[..cut];
        ctx.evals += 1;
        ctx.count("fault.truncate");
        for what in ["from_slice", "parse_jsonb"] {
            if let Some(Ok(t)) = observe(ctx, what, p, "truncate") {
                ctx.violation(&format!("{}/accepts-proper-prefix", what), || {
                    format!("{} accepted a proper prefix ({} of {} bytes) of the encoding of {} as {}: prefix={}", what, cut, enc.len(), doc.show(), t.show(), hex(p))
                });
            }
        }
    }
}

const INTERESTING: &[u8] = &[0x00, 0x01, 0x0F, 0x10, 0x1F, 0x20, 0x2F, 0x30, 0x40, 0x50, 0x5F, 0x60, 0x70, 0x7F, 0x80, 0x81, 0xC0, 0xC3, 0xE0, 0xED, 0xF0, 0xF8, 0xFE, 0xFF];

fn single_faults(ctx: &mut Ctx, enc: &[u8], rng: &mut Rng, exhaustive: bool) {
    let n = enc.len();
    // bit flips
    if exhaustive {
        for i in 0..n {
            for b in 0..8 {
                let mut m = enc.to_vec();
                m[i] ^= 1 << b;
                hostile(ctx, &m, "bitflip");
            }
        }
    } else {
        for _ in 0..(if ctx.miri { 24 } else { 64 }) {
            let mut m = enc.to_vec();
            let i = rng.below(n);
            m[i] ^= 1 << rng.below(8);
            hostile(ctx, &m, "bitflip");
        }
    }
    // substitution with interesting bytes, plus length +-1
    let offs: Vec<usize> = if exhaustive { (0..n).collect() } else { (0..(if ctx.miri { 6 } else { 48 })).map(|_| rng.below(n)).collect() };
    for &i in &offs {
        for &v in INTERESTING {
            if ctx.miri && !rng.chance(1, 4) {
                continue;
            }
            if enc[i] == v {
                continue;
            }
            let mut m = enc.to_vec();
            m[i] = v;
            hostile(ctx, &m, "substitute");
        }
        for d in [1u8, 0xFF] {
            let mut m = enc.to_vec();
            m[i] = m[i].wrapping_add(d);
            hostile(ctx, &m, "plusminus1");
        }
    }
    // insert / delete
    for &i in &offs {
        let mut m = enc.to_vec();
        m.remove(i);
        hostile(ctx, &m, "delete-byte");
        let mut m = enc.to_vec();
        m.insert(i, *rng.pick(INTERESTING));
        hostile(ctx, &m, "insert-byte");
    }
}

fn word_faults(ctx: &mut Ctx, enc: &[u8], rng: &mut Rng) {
    // rewrite every aligned-looking word position in the first words with header / entry values
    let words = (enc.len() / 4).min(if ctx.miri { 4 } else { 24 });
    let count_cap: u32 = if ctx.miri { 1 << 10 } else { 1 << 22 };
    for w in 0..words {
        let old = u32::from_be_bytes(enc[w * 4..w * 4 + 4].try_into().unwrap());
        let n = old & 0x1FFF_FFFF;
        let mut cands: Vec<u32> = Vec::new();
        // header rewrites: kind x count
        for kind in [0x2000_0000u32, 0x4000_0000, 0x8000_0000, 0x0000_0000, 0x6000_0000, 0xA000_0000, 0xC000_0000, 0xE000_0000] {
            for c in [0u32, 1, n.wrapping_sub(1) & 0x1FFF_FFFF, n, (n + 1) & 0x1FFF_FFFF, (n * 2) & 0x1FFF_FFFF, 1 << 16] {
                cands.push(kind | c.min(count_cap));
            }
        }
        // entry rewrites: type x length
        let l = old & 0x0FFF_FFFF;
        for ty in 0u32..16 {
            for len in [0u32, 1, l.wrapping_sub(1) & 0x0FFF_FFFF, l, (l + 1) & 0x0FFF_FFFF, 8, 9, 0x0FFF_FFFF] {
                cands.push((ty << 28) | len);
            }
        }
        // sample a subset to keep per-document cost bounded
        let take = if ctx.miri { 6 } else { 40 };
        for _ in 0..take {
            let v = *rng.pick(&cands);
            let mut m = enc.to_vec();
            m[w * 4..w * 4 + 4].copy_from_slice(&v.to_be_bytes());
            hostile(ctx, &m, "rewrite-word");
        }
    }
}

fn multi_faults(ctx: &mut Ctx, enc: &[u8], rng: &mut Rng) {
    for _ in 0..(if ctx.miri { 8 } else { 32 }) {
        let mut m = enc.to_vec();
        let k = rng.below(3) + 2;
        for _ in 0..k {
            if m.is_empty() {
                break;
            }
            match rng.below(5) {
                0 => {
                    let i = rng.below(m.len());
                    m[i] ^= 1 << rng.below(8);
                }
                1 => {
                    let i = rng.below(m.len());
                    m[i] = *rng.pick(INTERESTING);
                }
                2 => {
                    let i = rng.below(m.len());
                    m.remove(i);
                }
                3 => {
                    let i = rng.below(m.len() + 1);
                    m.insert(i, *rng.pick(INTERESTING));
                }
                _ => {
                    let cut = rng.below(m.len());
                    m.truncate(cut);
                }
            }
        }
        hostile(ctx, &m, "multi-fault");
    }
}

fn random_behind_header(ctx: &mut Ctx, rng: &mut Rng) {
    let kind = *rng.pick(&[0x20u8, 0x40, 0x80]);
    let n = rng.below(6) as u32;
    let mut m = vec![kind, 0, 0, n as u8];
    let extra = rng.below(40);
    for _ in 0..extra {
        // bias towards entry-like words
        if rng.chance(1, 3) {
            m.push(*rng.pick(&[0x00u8, 0x10, 0x20, 0x30, 0x40, 0x50, 0x60]));
        } else if rng.chance(1, 2) {
            m.push(rng.below(12) as u8);
        } else {
            m.push(rng.next_u64() as u8);
        }
    }
    hostile(ctx, &m, "random-behind-header");
}

/// non-UTF-8 string payloads inside otherwise well-formed encodings
fn bad_utf8_strings(ctx: &mut Ctx, rng: &mut Rng) {
    let bads: [&[u8]; 8] = [b"\xff", b"\xc3", b"\xc3\x28", b"\xe2\x82", b"\xed\xa0\x80", b"\xf0\x9f\x92", b"ab\x80", b"\xc0\xaf"];
    let bad = *rng.pick(&bads);
    let l = bad.len() as u8;
    // scalar string
    let mut m = vec![0x20, 0, 0, 0, 0x10, 0, 0, l];
    m.extend_from_slice(bad);
    hostile(ctx, &m, "bad-utf8-scalar");
    // array element
    let mut m = vec![0x80, 0, 0, 2, 0x10, 0, 0, l, 0x00, 0, 0, 0];
    m.extend_from_slice(bad);
    hostile(ctx, &m, "bad-utf8-element");
    // object key and value
    let mut m = vec![0x40, 0, 0, 1, 0x10, 0, 0, l, 0x10, 0, 0, l];
    m.extend_from_slice(bad);
    m.extend_from_slice(bad);
    hostile(ctx, &m, "bad-utf8-key");
    // key entries that are not string-typed
    for ty in [0x00u8, 0x20, 0x30, 0x40, 0x50] {
        let m = vec![0x40, 0, 0, 1, ty, 0, 0, if ty == 0x20 { 1 } else { 0 }, 0x00, 0, 0, 0, 0x00];
        hostile(ctx, &m, "non-string-key");
    }
}

/// valid JSON text (no leading space): from_slice must give the value the text denotes
fn text_fallback(ctx: &mut Ctx, text: &[u8], class: &str) {
    let exp = match refjson::parse(text, refjson::Mode::Lenient) {
        Ok(p) => p,
        Err(_) => return,
    };
    ctx.evals += 1;
    ctx.count(&format!("text.{}", class));
    let info = || format!("text={:?} bytes={}", lossy(text), hex(text));
    match observe(ctx, "from_slice", text, "valid-json-text") {
        Some(Ok(t)) => {
            if exp.exact && !t.same_encoding(&exp.tree) {
                ctx.violation("from_slice/text-misread", || format!("valid JSON text decoded as {} but denotes {} ; {}", t.show(), exp.tree.show(), info()));
            }
        }
        Some(Err(())) => ctx.violation("from_slice/text-rejected", || format!("valid JSON text rejected; denotes {} ; {}", exp.tree.show(), info())),
        None => {}
    }
    ctx.distinct(crate::prng::hash_bytes(text));
}

fn lookalike_text(rng: &mut Rng) -> Vec<u8> {
    // texts whose first 8 bytes read as a scalar header + entry word
    let fifth: &[u8] = b"0123456789@ABCDEFGHIJKLMNOPQRSTUVWXYZ !#\x01\x0f\x10\x1f abcdefghijklmnopqrstuvwxyz{}~";
    match rng.below(4) {
        0 => {
            // number with >= 8 digits
            let n = rng.below(14) + 8;
            let mut s: Vec<u8> = Vec::new();
            if rng.chance(1, 4) {
                s.push(b'-');
            }
            s.push(b'1' + rng.below(9) as u8);
            for _ in 1..n {
                s.push(b'0' + rng.below(10) as u8);
            }
            if rng.chance(1, 3) {
                s.extend_from_slice(b".5");
            }
            if rng.chance(1, 4) {
                s.extend_from_slice(b"e2");
            }
            s
        }
        1 | 2 => {
            // string: "abc" + chosen fifth byte + tail
            let mut s = vec![b'"'];
            for _ in 0..3 {
                s.push(b'a' + rng.below(26) as u8);
            }
            s.push(*rng.pick(fifth));
            let tail = rng.below(12);
            for _ in 0..tail {
                s.push(*rng.pick(fifth));
            }
            s.push(b'"');
            s
        }
        _ => {
            // array / object starting bytes
            let inner = lookalike_text(rng);
            if rng.bool() {
                let mut s = b"[".to_vec();
                s.extend_from_slice(&inner);
                s.extend_from_slice(b",null]");
                s
            } else {
                let mut s = b"{\"k\":".to_vec();
                s.extend_from_slice(&inner);
                s.push(b'}');
                s
            }
        }
    }
}

pub fn run(ctx: &mut Ctx) {
    if ctx.shard == 0 {
        ctx.next_case();
        // degenerate inputs
        for m in [&b""[..], b"\x20", b"\x40", b"\x80", b"\x20\x00\x00", b"\x20\x00\x00\x00", b"\x40\x00\x00\x00", b"\x80\x00\x00\x00", b"\x20\x00\x00\x00\x20\x00\x00\x00", b"\x20\x00\x00\x00\x20\x00\x00\x01\x60", b"\x20\x00\x00\x00\x50\x00\x00\x00"] {
            hostile(ctx, m, "degenerate");
        }
        // number entries: every tag x payload length 0..10 as scalar and as array element
        for tag in 0u16..=255 {
            for len in 0u8..=10 {
                let mut m = vec![0x20, 0, 0, 0, 0x20, 0, 0, len];
                if len > 0 {
                    m.push(tag as u8);
                    for k in 1..len {
                        m.push(k.wrapping_mul(29));
                    }
                }
                if ctx.miri && (tag as usize * 11 + len as usize) % 23 != 0 {
                    continue;
                }
                hostile(ctx, &m, "number-tag-width");
            }
        }
        // large header counts (sequentially, one thread)
        let caps: &[u32] = if ctx.miri { &[1 << 8] } else { &[1 << 16, 1 << 20, 1 << 24, 0x1FFF_FFFF] };
        for &c in caps {
            for kind in [0x80u32, 0x40] {
                let mut m = ((kind << 24) | c).to_be_bytes().to_vec();
                m.extend_from_slice(&[0x00, 0, 0, 0, 0x10, 0, 0, 1, b'a']);
                hostile(ctx, &m, "huge-count");
            }
        }
    }

    let n = if ctx.miri { ctx.miri_cases(1) } else { ctx.budget(1_600, 40_000) };
    for i in 0..n {
        if !ctx.next_case() {
            return;
        }
        let mut rng = ctx.rng.fork();
        let mut break_doc: Option<Tree> = None;
        let doc = if ctx.miri {
            gen::doc(&mut rng, &gen::DocCfg { max_depth: 2, max_fan: 2, nonfinite: true, container_p: 4 })
        } else {
            match i % 4 {
            _ if i % 16 == 5 => {
                // wide rather than deep: hundreds of small containers side by side
                if rng.chance(1, 3) {
                    // elements without payload: the encoding is an entry table and nothing else
                    let n = *rng.pick(&[255usize, 256, 257, 260, 300]);
                    break_doc = Some(Tree::Arr((0..n).map(|k| match (k + rng.below(2)) % 4 { 0 => Tree::Null, 1 => Tree::Bool(true), 2 => Tree::Bool(false), _ => Tree::Str(String::new()) }).collect()));
                }
                let rows = 100 + rng.below(300);
                let row = |rng: &mut Rng| if rng.bool() { Tree::Arr(vec![gen::scalar(rng, true)]) } else { Tree::Obj(vec![("k".into(), gen::scalar(rng, true))]) };
                if rng.bool() {
                    Tree::Arr((0..rows).map(|_| row(&mut rng)).collect())
                } else {
                    Tree::obj_from((0..rows).map(|k| (format!("k{}", k), row(&mut rng))).collect())
                }
            }
            0 => gen::doc(&mut rng, &gen::DOC_SMALL),
            1 => gen::doc(&mut rng, &gen::DocCfg { max_depth: 2, max_fan: 3, nonfinite: true, container_p: 5 }),
            2 => gen::doc(&mut rng, &gen::DOC_DEFAULT),
            _ => {
                let small = gen::small_scalars();
                rng.pick(&small).clone()
            }
            }
        };
        let doc = break_doc.take().unwrap_or(doc);
        let enc = refcodec::encode(&doc);
        ctx.count("seed_documents");
        whole(ctx, &enc, &doc);
        ctx.sample(|| format!("seed {} = {} (+ faults)", doc.show(), hex(&enc)));
        if enc.len() <= if ctx.miri { 48 } else { 4096 } {
            prefixes(ctx, &enc, &doc, &mut rng, true);
        } else if !ctx.miri && enc.len() >= 8 {
            prefixes(ctx, &enc, &doc, &mut rng, false);
        }
        let exhaustive = enc.len() <= if ctx.miri { 0 } else { 256 };
        single_faults(ctx, &enc, &mut rng, exhaustive);
        word_faults(ctx, &enc, &mut rng);
        multi_faults(ctx, &enc, &mut rng);
        for _ in 0..(if ctx.miri { 4 } else { 16 }) {
            random_behind_header(ctx, &mut rng);
        }
        bad_utf8_strings(ctx, &mut rng);
        // random raw bytes
        for _ in 0..8 {
            let l = rng.below(24);
            let m: Vec<u8> = (0..l).map(|_| rng.next_u64() as u8).collect();
            hostile(ctx, &m, "random-bytes");
        }
        // valid texts through the fallback
        let finite = gen::doc(&mut rng, &gen::DOC_FINITE);
        let st = refjson::Style { ws: 1, esc: 1, numvar: true };
        let text = refjson::to_text(&finite, &st, &mut rng, false);
        text_fallback(ctx, &text, "generated");
        // damaged text reaches the same fallback: an error or a value, never a panic
        for _ in 0..3 {
            let mut m = text.clone();
            if !m.is_empty() {
                let at = rng.below(m.len());
                match rng.below(4) {
                    0 => m.truncate(at),
                    1 => {
                        m.remove(at);
                    }
                    2 => m[at] = *rng.pick(b"\"\\{}[],:u \xff\x00"),
                    _ => {
                        let esc: &[u8] = *rng.pick(&[&b"\\u{1F60\""[..], b"\\u{0041\"", b"\\uD83D\\u{DE00\"", b"\\u\"", b"\\u12\"", b"\\ud83c\\udfff"]);
                        let tail = m.split_off(at);
                        m.extend_from_slice(esc);
                        m.extend_from_slice(&tail);
                    }
                }
            }
            if !matches!(m.first(), Some(0x20) | Some(0x40) | Some(0x80)) {
                hostile(ctx, &m, "damaged-text");
            }
        }
        // white space the text parser skips in front of a value, other than a space: plain,
        // form feed, and the escaped spellings its change log lists
        {
            let lead: &[u8] = *rng.pick(&[&b"\n"[..], b"\t", b"\r\n", b"\x0c", b"\\n", b"\\t", b"\\r", b"\\x0C", b"\n \t", b"\x0c\n"]);
            let mut t = lead.to_vec();
            t.extend_from_slice(&text);
            text_fallback(ctx, &t, "leading-whitespace");
        }
        for _ in 0..(if ctx.miri { 3 } else { 12 }) {
            let t = lookalike_text(&mut rng);
            text_fallback(ctx, &t, "header-lookalike");
        }
    }
}
