//! Route and history monitor, shared by the property workloads.
//!
//! Every property states what a function returns "for every valid document". The library takes a
//! document as JSONB bytes or as JSON text, and a caller may hand it the same buffer again with a
//! different document in it. This monitor observes the functions of one property on
//!   * the JSON text of the document (all argument positions), against the call on the encoding
//!     of that text;
//!   * a buffer that held a different document of the same length during an earlier call
//!     (same address, same length, other content), against the call on a fresh copy;
//!   * the same input before and after unrelated calls that fail part-way (truncated encodings,
//!     rejected text, a builder call with a bad part), which is where scratch state that is only
//!     reset on success survives.
//! The observation of a call is a pure function of its arguments on a correct library, so any
//! difference is a violation; no reference model is involved (the property's own workload judges
//! the plain JSONB call against the model).

use super::c11::{binary_functions, compare_obs, text_for, unary_functions, Args, F1, F2};
use crate::gen;
use crate::monitor::{guard, Ctx};
use crate::prng::Rng;
use crate::refcodec;
use crate::refjson::{self, Mode};
use crate::refops::KP;
use crate::tree::{hex, lossy, Num, Tree};

fn rb<E: std::fmt::Debug>(r: Result<(), E>, buf: &[u8]) -> String {
    match r {
        Ok(()) => format!("Ok({})", hex(buf)),
        Err(_) => "Err".into(),
    }
}

/// functions whose parts must be JSONB (no text route), observed for history effects only
fn jsonb_only_functions() -> Vec<F1> {
    let mut v: Vec<F1> = Vec::new();
    v.push(("build_array", Box::new(|d, _| {
        let mut b = Vec::new();
        rb(jsonb::build_array([d, d], &mut b), &b)
    })));
    v.push(("build_object", Box::new(|d, a| {
        let mut b = Vec::new();
        rb(jsonb::build_object([("k", d), (a.name.as_str(), d)], &mut b), &b)
    })));
    v.push(("from_slice", Box::new(|d, _| match jsonb::from_slice(d) {
        Ok(v) => format!("Ok({:?})", Tree::from_value(&v).map(|t| t.show())),
        Err(_) => "Err".into(),
    })));
    v
}

pub struct Monitor {
    unary: Vec<F1>,
    binary: Vec<F2>,
    jsonb_only: Vec<F1>,
}

fn wanted(name: &str, names: &[&str]) -> bool {
    names.iter().any(|n| name == *n || (n.ends_with('*') && name.starts_with(&n[..n.len() - 1])))
}

pub const ACCESSORS: &[&str] = &[
    "array_length", "get_by_index", "get_by_name*", "get_by_keypath", "exists_*", "object_keys", "object_each", "array_values", "is_*", "type_of", "traverse_check_string",
];
pub const EDITORS: &[&str] = &[
    "delete_by_*", "object_delete", "object_pick", "strip_nulls", "concat", "array_insert", "object_insert*", "build_array", "build_object",
];
pub const PATHS: &[&str] = &["get_by_path*", "path_exists", "path_match"];
pub const SETS: &[&str] = &["array_distinct", "array_intersection", "array_except", "array_overlap"];
pub const NUMBERS: &[&str] = &["is_number*", "is_i64*", "is_u64*", "is_f64*"];

impl Monitor {
    pub fn new(names: &[&str]) -> Monitor {
        Monitor {
            unary: unary_functions().into_iter().filter(|(n, _)| wanted(n, names)).collect(),
            binary: binary_functions().into_iter().filter(|(n, _)| wanted(n, names)).collect(),
            jsonb_only: jsonb_only_functions().into_iter().filter(|(n, _)| wanted(n, names)).collect(),
        }
    }

    /// observe every function of the property on the alternative routes and histories of `t`
    /// (and `u` for the two-document functions)
    pub fn check(&self, ctx: &mut Ctx, t: &Tree, u: &Tree, args: &Args, rng: &mut Rng) {
        ctx.count("routes.cases");
        let xb = refcodec::encode(t);
        let ub = refcodec::encode(u);
        // ---------------------------------------------------------------- text route
        if t.all_finite() && u.all_finite() {
            let (tt, ut) = (text_for(t, rng), text_for(u, rng));
            if let (Ok(pt), Ok(pu)) = (refjson::parse(&tt, Mode::Lenient), refjson::parse(&ut, Mode::Lenient)) {
                let (tb, utb) = (refcodec::encode(&pt.tree), refcodec::encode(&pu.tree));
                let info1 = || format!("text={:?} text_bytes={} jsonb={} {}", lossy(&tt), hex(&tt), hex(&tb), show_args(args));
                for (name, f) in self.unary.iter() {
                    if ctx.miri && !rng.chance(1, 5) {
                        continue; // the interpreter is ~4 orders of magnitude slower: a sample per case
                    }
                    ctx.count("routes.text");
                    let base = guard(|| f(&tb, args));
                    let got = guard(|| f(&tt, args));
                    compare_obs(ctx, name, "text", &base, &got, &info1);
                }
                let info2 = || format!("a_text={:?} b_text={:?} a_jsonb={} b_jsonb={} {}", lossy(&tt), lossy(&ut), hex(&tb), hex(&utb), show_args(args));
                for (name, f) in self.binary.iter() {
                    if ctx.miri && !rng.chance(1, 3) {
                        continue;
                    }
                    ctx.count("routes.text");
                    let base = guard(|| f(&tb, &utb, args));
                    for (combo, a, b) in [("text,jsonb", &tt, &utb), ("jsonb,text", &tb, &ut), ("text,text", &tt, &ut)] {
                        let got = guard(|| f(a, b, args));
                        compare_obs(ctx, name, combo, &base, &got, &info2);
                    }
                }
                // history on the text representation
                if let Some(v) = same_len_variant(t, rng, &|x| refjson::compact(x).len()) {
                    let (xt, yt) = (refjson::compact(t), refjson::compact(&v));
                    if !xt.starts_with(b" ") {
                        self.reuse(ctx, "text", &xt, &yt, &ub, args, rng);
                    }
                }
            }
        }
        // ---------------------------------------------------------------- history on JSONB
        if let Some(v) = same_len_variant(t, rng, &|x| refcodec::encode(x).len()) {
            let yb = refcodec::encode(&v);
            self.reuse(ctx, "jsonb", &xb, &yb, &ub, args, rng);
        }
        self.interference(ctx, &xb, &ub, t, args, rng);
    }

    /// `buf` holds `y` during an earlier call, then `x` (same address, same length)
    fn reuse(&self, ctx: &mut Ctx, repr: &str, x: &[u8], y: &[u8], other: &[u8], args: &Args, rng: &mut Rng) {
        debug_assert_eq!(x.len(), y.len());
        if x == y {
            return;
        }
        let all1: Vec<&F1> = self.unary.iter().chain(if repr == "jsonb" { self.jsonb_only.iter() } else { [].iter() }).collect();
        let info = |first: &str| format!("buffer held {} during an earlier call of {} and then {} ({}) ; other={} {}", show_bytes(y), first, show_bytes(x), repr, hex(other), show_args(args));
        let mut buf = y.to_vec();
        // an unrelated valid document of another size, in the same representation
        let z: Vec<u8> = if repr == "jsonb" {
            refcodec::encode(&Tree::Arr(vec![Tree::Null, Tree::Str("zzzzzzz".into()), Tree::Obj(vec![("q".into(), Tree::Bool(true))])]))
        } else {
            b"[null,\"zzzzzzz\",{\"q\":true}]".to_vec()
        };
        for _ in 0..2 {
            if !all1.is_empty() {
                ctx.count("routes.reuse");
                let (n1, f1) = all1[rng.below(all1.len())];
                let (n2, f2) = all1[rng.below(all1.len())];
                // the answer for `x` before the other document was seen, then with the other
                // document in the buffer, then for `x` in that same buffer, then on a new copy
                // (a call on an unrelated document of another size comes before each of the
                // two, so that neither starts from what the other left behind)
                let _ = guard(|| f2(&z, args));
                let first_in = x.to_vec();
                let before = guard(|| f2(&first_in, args));
                let _ = guard(|| f1(&z, args));
                buf.copy_from_slice(y);
                let _ = guard(|| f1(&buf, args));
                buf.copy_from_slice(x);
                let got = guard(|| f2(&buf, args));
                let fresh_in = x.to_vec();
                let fresh = guard(|| f2(&fresh_in, args));
                history_obs(ctx, n2, &before, &got, &|| info(n1));
                history_obs(ctx, n2, &fresh, &got, &|| info(n1));
            }
            if !self.binary.is_empty() {
                ctx.count("routes.reuse");
                let (n1, f1) = &self.binary[rng.below(self.binary.len())];
                let (n2, f2) = &self.binary[rng.below(self.binary.len())];
                let first_pos = rng.bool();
                let (bx, bo) = (x.to_vec(), other.to_vec());
                let _ = guard(|| f2(&z, &z, args));
                let before = guard(|| if first_pos { f2(&bx, &bo, args) } else { f2(&bo, &bx, args) });
                let _ = guard(|| f1(&z, &z, args));
                buf.copy_from_slice(y);
                let _ = guard(|| if first_pos { f1(&buf, other, args) } else { f1(other, &buf, args) });
                buf.copy_from_slice(x);
                let got = guard(|| if first_pos { f2(&buf, other, args) } else { f2(other, &buf, args) });
                let (fx, fo) = (x.to_vec(), other.to_vec());
                let fresh = guard(|| if first_pos { f2(&fx, &fo, args) } else { f2(&fo, &fx, args) });
                history_obs(ctx, n2, &before, &got, &|| info(n1));
                history_obs(ctx, n2, &fresh, &got, &|| info(n1));
            }
        }
    }

    /// the same call before and after calls that are cut short by an error
    fn interference(&self, ctx: &mut Ctx, xb: &[u8], ub: &[u8], t: &Tree, args: &Args, rng: &mut Rng) {
        let all1: Vec<&F1> = self.unary.iter().chain(self.jsonb_only.iter()).collect();
        let n = all1.len() + self.binary.len();
        if n == 0 {
            return;
        }
        ctx.count("routes.interference");
        let pick = rng.below(n);
        // the judged call takes the document as JSONB or (finite documents, functions that take
        // text) as JSON text
        let as_text = t.all_finite() && rng.bool() && !(pick < all1.len() && pick >= self.unary.len());
        let xt;
        let xin: &[u8] = if as_text {
            xt = refjson::compact(t);
            &xt
        } else {
            xb
        };
        let call = |ctx_args: &Args| -> Result<String, crate::monitor::Panicked> {
            if pick < all1.len() {
                guard(|| (all1[pick].1)(xin, ctx_args))
            } else {
                guard(|| (self.binary[pick - all1.len()].1)(xin, ub, ctx_args))
            }
        };
        let name = if pick < all1.len() { all1[pick].0 } else { self.binary[pick - all1.len()].0 };
        let before = call(args);
        let what = self.hostile_calls(xb, ub, t, args, rng);
        let after = call(args);
        history_obs(ctx, name, &before, &after, &|| format!("same call before and after [{}] ; doc={} other={} {}", what, show_bytes(xin), hex(ub), show_args(args)));
    }

    /// calls that end early: every outcome is ignored, panics included (other workloads judge them)
    fn hostile_calls(&self, xb: &[u8], ub: &[u8], t: &Tree, args: &Args, rng: &mut Rng) -> String {
        let mut log = Vec::new();
        for _ in 0..(1 + rng.below(3)) {
            // a damaged relative of the document: truncated encoding, truncated / broken text
            let bad: Vec<u8> = match rng.below(5) {
                0 if xb.len() > 5 => xb[..4 + rng.below(xb.len() - 4)].to_vec(),
                1 if t.all_finite() => {
                    let mut s = refjson::compact(t);
                    let cut = rng.below(s.len() + 1);
                    s.truncate(cut);
                    s
                }
                2 if t.all_finite() => {
                    // an escape the parser rejects, after some decoded characters
                    let mut s = b"[\"abc\\n".to_vec();
                    s.extend_from_slice(*rng.pick(&[&b"\\q\"]"[..], b"\\u12G4\"]", b"\\", b"\\ud800\\u12\"]"]));
                    s
                }
                3 => rng.pick(&[&b""[..], b"\x80", b"\x40\x00", b"\x20\x00\x00\x00", b"\x80\x00\x00\x01", b"{\"a\":", b"[1,", b"\"abc", b"[1,1e999]", b"{\"k\":-1e999}"]).to_vec(),
                _ => xb[..xb.len().min(4 + rng.below(5))].to_vec(),
            };
            // (damaged encodings are *cut*, never altered in place: the byte-level accessors trust
            // the UTF-8 of a string payload that lies within bounds, so flipped bits inside one
            // would be undefined behaviour in the harness process, which no property covers)
            let all1: Vec<&F1> = self.unary.iter().chain(self.jsonb_only.iter()).collect();
            match rng.below(4) {
                0 | 1 if !all1.is_empty() => {
                    let (n, f) = all1[rng.below(all1.len())];
                    let _ = guard(|| f(&bad, args));
                    log.push(format!("{}({})", n, show_bytes(&bad)));
                }
                2 if !self.binary.is_empty() => {
                    let (n, f) = &self.binary[rng.below(self.binary.len())];
                    if rng.bool() {
                        let _ = guard(|| f(&bad, ub, args));
                    } else {
                        let _ = guard(|| f(xb, &bad, args));
                    }
                    log.push(format!("{}(.., {})", n, show_bytes(&bad)));
                }
                _ => {
                    // builders: good parts first, then a part that is rejected
                    let mut b = Vec::new();
                    let _ = guard(|| jsonb::build_array([xb, ub, &bad[..], xb], &mut b));
                    let mut b2 = Vec::new();
                    let _ = guard(|| jsonb::build_object([("a", xb), ("b", &bad[..]), ("c", ub)], &mut b2));
                    let _ = guard(|| jsonb::from_slice(&bad).map(|_| ()));
                    let _ = guard(|| jsonb::parse_value(&bad).map(|_| ()));
                    log.push(format!("build_array/build_object/from_slice/parse_value with part {}", show_bytes(&bad)));
                }
            }
        }
        log.join(", ")
    }
}

fn show_bytes(b: &[u8]) -> String {
    if b.first().map_or(false, |c| matches!(c, 0x20 | 0x40 | 0x80)) || b.is_empty() {
        hex(b)
    } else {
        format!("{:?}", lossy(b))
    }
}

fn show_args(a: &Args) -> String {
    format!("index={} pos={} name={:?} keypath={:?} keys={:?} path={:?} pred={:?}", a.index, a.pos, a.name, a.keypath, a.keys, a.path_text, a.pred_text)
}

fn history_obs(ctx: &mut Ctx, fname: &str, fresh: &Result<String, crate::monitor::Panicked>, got: &Result<String, crate::monitor::Panicked>, info: &dyn Fn() -> String) {
    match (fresh, got) {
        (Ok(b), Ok(g)) => {
            if b != g {
                ctx.violation(&format!("{}/depends-on-earlier-call", fname), || format!("got {} ; on its own the call gives {} ; {}", super::c11::trunc(g), super::c11::trunc(b), info()));
            }
        }
        (_, Err(p)) => ctx.panic_violation(&format!("{}(after-earlier-call)", fname), p, info),
        (Err(p), _) => ctx.panic_violation(fname, p, info),
    }
}

/// arguments drawn from the document (no JSON path: "$" and "$ == $")
pub fn plain_args(t: &Tree, rng: &mut Rng) -> Args {
    Args {
        index: rng.below(4),
        pos: rng.range(-4, 4) as i32,
        name: match t {
            Tree::Obj(v) if !v.is_empty() && rng.chance(3, 4) => {
                let k = v[rng.below(v.len())].0.clone();
                // also case variants beyond ASCII: only ASCII case may be ignored
                match rng.below(4) {
                    0 => k.to_uppercase(),
                    1 => k.to_lowercase(),
                    _ => k,
                }
            }
            _ => gen::key(rng),
        },
        keypath: gen::keypath_for(t, rng),
        keys: if rng.chance(1, 8) {
            Vec::new()
        } else {
            let mut k = vec![gen::key(rng)];
            if let Tree::Obj(v) = t {
                k.extend(v.iter().take(2).map(|(k, _)| k.clone()));
            }
            k
        },
        path_text: "$".into(),
        pred_text: "$ == $".into(),
    }
}

pub fn path_args(t: &Tree, path_text: String, pred_text: String, rng: &mut Rng) -> Args {
    let mut a = plain_args(t, rng);
    a.path_text = path_text;
    a.pred_text = pred_text;
    a
}

pub fn kp_args(t: &Tree, keypath: Vec<KP>, rng: &mut Rng) -> Args {
    let mut a = plain_args(t, rng);
    a.keypath = keypath;
    a
}

// ---------------------------------------------------------------- same-length relatives

fn walk(t: &Tree, path: &mut Vec<usize>, leaves: &mut Vec<Vec<usize>>, conts: &mut Vec<Vec<usize>>) {
    match t {
        Tree::Arr(v) => {
            if v.len() > 1 {
                conts.push(path.clone());
            }
            for (i, x) in v.iter().enumerate() {
                path.push(i);
                walk(x, path, leaves, conts);
                path.pop();
            }
        }
        Tree::Obj(v) => {
            if v.len() > 1 {
                conts.push(path.clone());
            }
            for (i, (_, x)) in v.iter().enumerate() {
                path.push(i);
                walk(x, path, leaves, conts);
                path.pop();
            }
        }
        _ => leaves.push(path.clone()),
    }
}

fn at_mut<'a>(t: &'a mut Tree, path: &[usize]) -> &'a mut Tree {
    let mut cur = t;
    for &i in path {
        cur = match cur {
            Tree::Arr(v) => &mut v[i],
            Tree::Obj(v) => &mut v[i].1,
            _ => unreachable!(),
        };
    }
    cur
}

fn bump_ascii(s: &str, rng: &mut Rng) -> Option<String> {
    let idx: Vec<usize> = s.bytes().enumerate().filter(|(_, b)| b.is_ascii_alphanumeric()).map(|(i, _)| i).collect();
    if idx.is_empty() {
        return None;
    }
    let i = idx[rng.below(idx.len())];
    let mut b = s.as_bytes().to_vec();
    b[i] = match b[i] {
        b'9' => b'1',
        b'z' => b'a',
        b'Z' => b'A',
        c => c + 1,
    };
    String::from_utf8(b).ok()
}

/// a different document whose representation (measured by `len`) has the same length:
/// one character of a string changed, a digit changed, two siblings swapped, a character
/// moved from one string to its neighbour, true <-> false
pub fn same_len_variant(t: &Tree, rng: &mut Rng, len: &dyn Fn(&Tree) -> usize) -> Option<Tree> {
    let want = len(t);
    let (mut leaves, mut conts) = (Vec::new(), Vec::new());
    walk(t, &mut Vec::new(), &mut leaves, &mut conts);
    for _ in 0..6 {
        let mut v = t.clone();
        let kind = rng.below(5);
        let mut done = false;
        if kind <= 2 || conts.is_empty() {
            if leaves.is_empty() {
                return None;
            }
            let (i, j) = (rng.below(leaves.len()), rng.below(leaves.len()));
            if kind == 2 && i != j {
                // move the last character of one string to another string
                let moved = match at_mut(&mut v, &leaves[i]) {
                    Tree::Str(s) => s.pop(),
                    _ => None,
                };
                if let Some(c) = moved {
                    if let Tree::Str(o) = at_mut(&mut v, &leaves[j]) {
                        o.push(c);
                        done = true;
                    }
                }
                if !done {
                    v = t.clone();
                }
            }
            if !done {
                match at_mut(&mut v, &leaves[i]) {
                    Tree::Str(s) => {
                        if let Some(n) = bump_ascii(s, rng) {
                            *s = n;
                            done = true;
                        }
                    }
                    Tree::Num(Num::U(x)) if *x > 0 && *x < u64::MAX - 10 => {
                        let d = *x % 10;
                        *x = *x - d + if d == 9 { 1 } else { d + 1 };
                        done = true;
                    }
                    Tree::Num(Num::I(x)) if *x < 0 && *x > i64::MIN + 10 => {
                        let d = (-*x) % 10;
                        *x = *x + d - if d == 9 { 1 } else { d + 1 };
                        done = true;
                    }
                    Tree::Bool(b) => {
                        *b = !*b;
                        done = true;
                    }
                    _ => {}
                }
            }
        } else {
            let c = at_mut(&mut v, &conts[rng.below(conts.len())]);
            match c {
                Tree::Arr(a) => {
                    let (i, j) = (rng.below(a.len()), rng.below(a.len()));
                    a.swap(i, j);
                    done = true;
                }
                Tree::Obj(o) => {
                    if kind == 3 {
                        // exchange the values of two members
                        let (i, j) = (rng.below(o.len()), rng.below(o.len()));
                        if i != j {
                            let (a, b) = (o[i].1.clone(), o[j].1.clone());
                            o[i].1 = b;
                            o[j].1 = a;
                            done = true;
                        }
                    } else {
                        // change one character of a key (keys stay unique or the try is dropped)
                        let i = rng.below(o.len());
                        if let Some(k) = bump_ascii(&o[i].0, rng) {
                            if !o.iter().any(|(x, _)| *x == k) {
                                let mut all = std::mem::take(o);
                                all[i].0 = k;
                                *c = Tree::obj_from(all);
                                done = true;
                            }
                        }
                    }
                }
                _ => {}
            }
        }
        if done && len(&v) == want && !v.same_encoding(t) {
            return Some(v);
        }
    }
    None
}
