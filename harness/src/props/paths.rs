//! helpers around the library's JSONPath entry points (shared by C07, C08, C11, C15, C17)

use crate::monitor::{guard, Ctx, Panicked};
use crate::refcodec;
use crate::tree::{hex, Tree};
use jsonb::jsonpath::{parse_json_path, Mode, Selector};

#[derive(Debug, Clone, PartialEq)]
pub struct Selected {
    pub data: Vec<u8>,
    pub offsets: Vec<u64>,
}

pub fn mode_of(i: usize) -> Mode {
    match i {
        0 => Mode::All,
        1 => Mode::First,
        2 => Mode::Array,
        _ => Mode::Mixed,
    }
}
pub const MODE_NAMES: [&str; 4] = ["All", "First", "Array", "Mixed"];

pub enum Sel {
    ParseErr,
    Panic(Panicked),
    Err(String),
    Ok(Selected),
}

/// parse + select in one mode into (possibly pre-filled) buffers
pub fn select_into(path_text: &[u8], doc: &[u8], mode: usize, data: &mut Vec<u8>, offsets: &mut Vec<u64>) -> Sel {
    let r = guard(|| {
        let p = match parse_json_path(path_text) {
            Ok(p) => p,
            Err(_) => return None,
        };
        let sel = Selector::new(p, mode_of(mode));
        Some(sel.select(doc, data, offsets).map_err(|e| format!("{:?}", e)))
    });
    match r {
        Err(p) => Sel::Panic(p),
        Ok(None) => Sel::ParseErr,
        Ok(Some(Err(e))) => Sel::Err(e),
        Ok(Some(Ok(()))) => Sel::Ok(Selected { data: data.clone(), offsets: offsets.clone() }),
    }
}

pub fn select(path_text: &[u8], doc: &[u8], mode: usize) -> Sel {
    let mut d = Vec::new();
    let mut o = Vec::new();
    select_into(path_text, doc, mode, &mut d, &mut o)
}

/// split `data` by end offsets; None if offsets are not strictly increasing / do not end at data.len()
pub fn split_items(s: &Selected) -> Option<Vec<Vec<u8>>> {
    let mut out = Vec::new();
    let mut prev = 0usize;
    for &o in &s.offsets {
        let o = o as usize;
        if o <= prev || o > s.data.len() {
            return None;
        }
        out.push(s.data[prev..o].to_vec());
        prev = o;
    }
    if prev != s.data.len() {
        return None;
    }
    Some(out)
}

pub fn exists(path_text: &[u8], doc: &[u8]) -> Result<Option<Result<bool, String>>, Panicked> {
    guard(|| {
        let p = parse_json_path(path_text).ok()?;
        let sel = Selector::new(p, Mode::Mixed);
        Some(sel.exists(doc).map_err(|e| format!("{:?}", e)))
    })
}

pub fn predicate_match(path_text: &[u8], doc: &[u8]) -> Result<Option<Result<bool, String>>, Panicked> {
    guard(|| {
        let p = parse_json_path(path_text).ok()?;
        let sel = Selector::new(p, Mode::First);
        Some(sel.predicate_match(doc).map_err(|e| format!("{:?}", e)))
    })
}

pub fn show_sel(s: &Selected) -> String {
    format!("data={} offsets={:?}", hex(&s.data), s.offsets)
}

pub fn note_parse_reject(ctx: &mut Ctx, text: &str) {
    ctx.count("path.rejected-by-parser(C09 decides)");
    if ctx.notes.len() < 3 {
        ctx.notes.push(format!("path not accepted by the parser (left to C09): {:?}", text));
    }
}

/// one `Selector` object serving several documents in turn: what it returns for a document does
/// not depend on the documents it was applied to before
pub fn selector_reuse(ctx: &mut Ctx, enc: &[u8], other: &[u8], text: &str, info: &dyn Fn() -> String) {
        for m in 0..4 {
        ctx.count("selector-reuse");
        let r = guard(|| {
            let p = parse_json_path(text.as_bytes()).ok()?;
            let sel = Selector::new(p, mode_of(m));
            let run = |d: &[u8]| {
                let (mut data, mut offsets) = (Vec::new(), Vec::new());
                let r = sel.select(d, &mut data, &mut offsets).map_err(|e| format!("{:?}", e));
                (r, data, offsets, sel.exists(d).ok(), sel.predicate_match(d).ok())
            };
            // the same two documents through selectors made for one call each
            let fresh = |d: &[u8]| {
                let p = parse_json_path(text.as_bytes()).ok()?;
                let one = Selector::new(p, mode_of(m));
                let (mut data, mut offsets) = (Vec::new(), Vec::new());
                let r = one.select(d, &mut data, &mut offsets).map_err(|e| format!("{:?}", e));
                Some((r, data, offsets, one.exists(d).ok(), one.predicate_match(d).ok()))
            };
            let (f_enc, f_other) = (fresh(enc)?, fresh(other)?);
            // documents of equal length are presented in ONE buffer (same address, same
            // length, other content), as a caller reading rows into a reused buffer does
            let first;
            let second;
            let again;
            if enc.len() == other.len() {
                let mut row = enc.to_vec();
                first = run(&row);
                row.copy_from_slice(other);
                second = run(&row);
                row.copy_from_slice(enc);
                again = run(&row);
            } else {
                first = run(enc);
                second = run(other);
                again = run(enc);
            }
            Some(((f_enc.clone(), first), (f_other, second), (f_enc, again)))
        });
        match r {
            Err(p) => ctx.panic_violation(&format!("Selector({}) reused", MODE_NAMES[m]), &p, info),
            Ok(Some(steps)) => {
                for (k, (fresh, got)) in [steps.0, steps.1, steps.2].iter().enumerate() {
                    if fresh != got {
                        ctx.violation("selector-reuse/depends-on-earlier-document", || format!("mode {}: call {} of [document, other, document] on one Selector gives {:?} ; a Selector of its own gives {:?} ; other={} ; {}", MODE_NAMES[m], k + 1, got, fresh, hex(other), info()));
                        break;
                    }
                }
            }
            Ok(None) => {}
        }
    }
}


/// a valid document of the same encoded length whose root is of another kind (a string for
/// anything that is not a string; an array of nulls or a one-member object for a string)
pub fn same_len_other_root(enc: &[u8], t: &Tree) -> Option<Vec<u8>> {
    let l = enc.len();
    let o = match t {
        Tree::Str(_) => {
            if l >= 8 && (l - 4) % 4 == 0 {
                Tree::Arr(vec![Tree::Null; (l - 4) / 4])
            } else if l >= 12 {
                Tree::Obj(vec![("k".repeat(l - 12), Tree::Null)])
            } else {
                return None;
            }
        }
        _ if l >= 8 => Tree::Str("x".repeat(l - 8)),
        _ => return None,
    };
    let e = refcodec::encode(&o);
    if e.len() == l {
        Some(e)
    } else {
        None
    }
}
