//! C03 — rendering JSONB as text yields valid JSON that denotes the same document.

use crate::gen;
use crate::monitor::{guard, Ctx, Tier};
use crate::refcodec;
use crate::refjson::{self, Mode};
use crate::tree::{hex, lossy, Num, Tree};

/// independent pretty layout of a compact JSON text: two-space indentation, one member per
/// line, ": " after keys. Empty containers are written "[]" / "{}" (whitespace inside empty
/// containers is not judged: both sides are normalised with `squash_empty`).
fn expected_pretty(compact: &[u8]) -> Vec<u8> {
    let mut out = Vec::new();
    let mut depth = 0usize;
    let mut i = 0;
    let nl = |out: &mut Vec<u8>, d: usize| {
        out.push(b'\n');
        for _ in 0..d * 2 {
            out.push(b' ');
        }
    };
    while i < compact.len() {
        let c = compact[i];
        match c {
            b'"' => {
                out.push(c);
                i += 1;
                while i < compact.len() {
                    let d = compact[i];
                    out.push(d);
                    if d == b'\\' && i + 1 < compact.len() {
                        out.push(compact[i + 1]);
                        i += 1;
                    } else if d == b'"' {
                        break;
                    }
                    i += 1;
                }
            }
            b'[' | b'{' => {
                out.push(c);
                let close = if c == b'[' { b']' } else { b'}' };
                if compact.get(i + 1) == Some(&close) {
                    out.push(close);
                    i += 1;
                } else {
                    depth += 1;
                    nl(&mut out, depth);
                }
            }
            b']' | b'}' => {
                depth -= 1;
                nl(&mut out, depth);
                out.push(c);
            }
            b',' => {
                out.push(c);
                nl(&mut out, depth);
            }
            b':' => out.extend_from_slice(b": "),
            _ => out.push(c),
        }
        i += 1;
    }
    out
}

/// remove whitespace that lies between an opening bracket and its immediately matching closing one
fn squash_empty(text: &[u8]) -> Vec<u8> {
    let mut out: Vec<u8> = Vec::with_capacity(text.len());
    let mut in_str = false;
    let mut i = 0;
    while i < text.len() {
        let c = text[i];
        if in_str {
            out.push(c);
            if c == b'\\' && i + 1 < text.len() {
                out.push(text[i + 1]);
                i += 1;
            } else if c == b'"' {
                in_str = false;
            }
        } else if c == b'"' {
            in_str = true;
            out.push(c);
        } else if c == b'[' || c == b'{' {
            out.push(c);
            let close = if c == b'[' { b']' } else { b'}' };
            let mut j = i + 1;
            while j < text.len() && matches!(text[j], b' ' | b'\n' | b'\t' | b'\r') {
                j += 1;
            }
            if j < text.len() && text[j] == close {
                out.push(close);
                i = j;
            }
        } else {
            out.push(c);
        }
        i += 1;
    }
    out
}

pub fn check_one(ctx: &mut Ctx, t: &Tree) {
    let enc = refcodec::encode(t);
    let info = || format!("doc={} bytes={}", t.show(), hex(&enc));
    let (s, p) = match guard(|| (jsonb::to_string(&enc), jsonb::to_pretty_string(&enc))) {
        Ok(x) => x,
        Err(pn) => {
            ctx.panic_violation("to_string", &pn, &info);
            return;
        }
    };
    ctx.count("to_string.calls");
    ctx.check_utf8("to_string", s.as_bytes(), &info);
    let meaning = t.text_norm();
    // (1) independent strict parser accepts, meaning equals the document
    for (name, text) in [("to_string", &s), ("to_pretty_string", &p)] {
        match refjson::parse(text.as_bytes(), Mode::Strict) {
            Err(why) => {
                let sig = if why.contains("control character") { "raw-control-character" } else { "other" };
                ctx.violation(&format!("{}/not-rfc8259/{}", name, sig), || format!("strict parser rejects the rendering ({}): {:?} ; {}", why, lossy(text.as_bytes()), info()));
            }
            Ok(parsed) => {
                if !parsed.tree.same_encoding(&meaning) {
                    ctx.violation(&format!("{}/meaning-differs", name), || format!("rendering {:?} denotes {} ; {}", lossy(text.as_bytes()), parsed.tree.show(), info()));
                }
            }
        }
    }
    // (2) the library's own parser closes the loop; identical bytes when ints are in text form
    match guard(|| jsonb::parse_value(s.as_bytes()).map(|v| (Tree::from_value(&v), v.to_vec()))) {
        Err(pn) => ctx.panic_violation("parse_value(to_string)", &pn, &info),
        Ok(Err(e)) => ctx.violation("roundtrip/parse_value-rejects-rendering", || format!("{:?} on {:?} ; {}", e, lossy(s.as_bytes()), info())),
        Ok(Ok((Err(bad), _))) => ctx.violation("roundtrip/non-utf8", || format!("{} ; {}", bad, info())),
        Ok(Ok((Ok(back), bytes))) => {
            if !back.same_encoding(&meaning) {
                ctx.violation("roundtrip/value-differs", || format!("parse_value(to_string(doc)) = {} ; text {:?} ; {}", back.show(), lossy(s.as_bytes()), info()));
            } else if t.ints_text_form() && bytes != enc {
                ctx.violation("roundtrip/bytes-differ", || format!("re-encoded {} ; {}", hex(&bytes), info()));
            }
        }
    }
    // (3) pretty differs from compact only in insignificant whitespace, with the documented layout
    let stripped = refjson::strip_ws(p.as_bytes());
    if stripped != s.as_bytes() {
        ctx.violation("pretty/not-whitespace-variant-of-compact", || format!("pretty {:?} compact {:?} ; {}", lossy(p.as_bytes()), lossy(s.as_bytes()), info()));
    } else {
        let exp = expected_pretty(s.as_bytes());
        if squash_empty(p.as_bytes()) != squash_empty(&exp) {
            ctx.violation("pretty/layout", || format!("pretty {:?} expected layout {:?} ; {}", lossy(p.as_bytes()), lossy(&exp), info()));
        }
    }
    if t.nodes() > 1 || matches!(t, Tree::Str(x) if !x.is_empty()) || matches!(t, Tree::Num(_)) {
        ctx.distinct(t.hash64());
    }
}

pub fn run(ctx: &mut Ctx) {
    // every Unicode scalar value as string value and as key (quick: < U+0800 + sampled; thorough: all)
    let all = ctx.tier == Tier::Thorough && !ctx.miri;
    let limit: u32 = if ctx.miri { 0x100 } else if all { 0x110000 } else { 0x800 };
    let mut cp = ctx.shard as u32;
    let mut swept = 0u64;
    ctx.next_case();
    while cp < limit {
        // chunk of up to 4 consecutive-by-shard code points per document
        let mut s = String::new();
        let mut k = 0;
        while k < 4 && cp < limit {
            if let Some(c) = char::from_u32(cp) {
                s.push(c);
                swept += 1;
            }
            cp += ctx.nshards as u32;
            k += 1;
        }
        if s.is_empty() {
            continue;
        }
        let t = Tree::Obj(vec![(s.clone(), Tree::Arr(vec![Tree::Str(s.clone()), Tree::Num(Num::U(swept))]))]);
        check_one(ctx, &t);
    }
    // the ASCII range once more, each character on its own (a string that needs exactly one
    // escape and nothing else takes other branches than one that needs several)
    if ctx.shard == 0 {
        for cp in 0u32..0x80 {
            let c = char::from_u32(cp).unwrap();
            for s in [c.to_string(), format!("a{}", c), format!("{}{}", c, c)] {
                check_one(ctx, &Tree::Arr(vec![Tree::Str(s.clone()), Tree::Obj(vec![(s, Tree::Null)])]));
            }
        }
    }
    ctx.count_n("codepoints.swept(as key and value)", swept);
    ctx.exhaustive.insert(format!("all Unicode scalar values below {:#x} as key and as value", limit), true);

    if ctx.shard == 0 {
        for f in gen::float_pool() {
            ctx.next_case();
            check_one(ctx, &Tree::Num(Num::f(f)));
            check_one(ctx, &Tree::Arr(vec![Tree::Num(Num::f(f)), Tree::Num(Num::f(-f))]));
        }
        for v in gen::int_pool() {
            ctx.next_case();
            if v >= 0 {
                check_one(ctx, &Tree::Num(Num::U(v as u64)));
            }
            if v <= i64::MAX as i128 {
                check_one(ctx, &Tree::Obj(vec![("k".into(), Tree::Num(Num::I(v as i64)))]));
            }
        }
    }
    let mon = super::routes::Monitor::new(&["to_string", "to_pretty_string"]);
    let n = ctx.budget(1_000_000, 20_000_000);
    for i in 0..n {
        if !ctx.next_case() {
            return;
        }
        let mut rng = ctx.rng.fork();
        let t = match i % 8 {
            _ if i % 4001 == 7 && !ctx.miri => gen::big_doc(&mut rng, true),
            0 => gen::deep(rng.below(50) + 1, rng.below(3) as u8, gen::doc(&mut rng, &gen::DocCfg { max_depth: 2, max_fan: 3, nonfinite: false, container_p: 3 })),
            1 => {
                // random finite floats
                let mut v = Vec::new();
                for _ in 0..6 {
                    loop {
                        let f = f64::from_bits(rng.next_u64());
                        if f.is_finite() {
                            v.push(Tree::Num(Num::f(f)));
                            break;
                        }
                    }
                }
                Tree::Arr(v)
            }
            2 => {
                // sampled code points
                let s: String = (0..4).map(|_| gen::random_char(&mut rng)).collect();
                Tree::Obj(vec![(s.clone(), Tree::Str(s))])
            }
            _ => gen::doc(&mut rng, &gen::DOC_FINITE),
        };
        check_one(ctx, &t);
        if i % 2003 == 9 && !ctx.miri {
            // a table whose rows hold empty arrays and objects: well over a thousand in all
            let rows = 600 + rng.below(600);
            let t2 = Tree::Arr((0..rows).map(|k| Tree::Obj(vec![("attrs".into(), Tree::Obj(vec![])), ("id".into(), Tree::Num(Num::U(k as u64))), ("tags".into(), Tree::Arr(vec![]))])).collect());
            check_one(ctx, &t2);
        }
        if i % 4 == 1 && t.nodes() < 300 {
            let args = super::routes::plain_args(&t, &mut rng);
            mon.check(ctx, &t, &t, &args, &mut rng);
        }
        ctx.sample(|| format!("{} -> {:?}", t.show(), jsonb::to_string(&refcodec::encode(&t))));
    }
}
