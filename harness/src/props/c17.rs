//! C17 — functions that write into a caller's buffer only append to it.
//! Batches of calls share one data buffer (and one offsets vector): after every call all earlier
//! bytes must be unchanged and the new suffix must equal what the call writes into an empty buffer.

use super::c05::lib_keypath;
use crate::gen::{self, PathCfg, PathGen};
use crate::monitor::{guard, Ctx};
use crate::prng::Rng;
use crate::refcodec;
use crate::refops::{self, Edit, KP};
use crate::refpath;
use crate::tree::{hex, Tree};
use jsonb::jsonpath::{parse_json_path, Mode, Selector};
use std::collections::BTreeSet;

pub struct Call {
    pub name: String,
    pub describe: String,
    /// Ok(()) / Err(display)
    pub f: Box<dyn Fn(&mut Vec<u8>, &mut Vec<u64>) -> Result<(), String>>,
    /// the documented error this call must end in (wrong container kind, duplicate key ...)
    pub must_err: Option<&'static str>,
    /// a call that is cut short by a part that is not JSONB: run on scratch buffers between the
    /// judged calls, its own outcome is not judged
    pub hostile: bool,
}

fn documented(e: Edit) -> Option<&'static str> {
    match e {
        Edit::Err(x) => Some(x),
        Edit::Ok(_) => None,
    }
}

fn e<E: std::fmt::Debug>(r: Result<(), E>) -> Result<(), String> {
    r.map_err(|x| format!("{:?}", x))
}

pub fn random_call(rng: &mut Rng, pool: &[Tree]) -> Call {
    let t = rng.pick(pool).clone();
    let u = rng.pick(pool).clone();
    // the document as JSONB, or (one call in four, finite numbers only) as JSON text
    let as_text = t.all_finite() && rng.chance(1, 4);
    let a = if as_text { crate::refjson::compact(&t) } else { refcodec::encode(&t) };
    let b = refcodec::encode(&u);
    let name_arg: String = match &t {
        Tree::Obj(v) if !v.is_empty() && rng.chance(3, 4) => v[rng.below(v.len())].0.clone(),
        _ => gen::key(rng),
    };
    let pos = rng.range(-4, 4) as i32;
    let kp: Vec<KP> = gen::keypath_for(&t, rng);
    let keys: Vec<String> = if rng.chance(1, 6) {
        Vec::new()
    } else {
        let mut k = vec![gen::key(rng)];
        if let Tree::Obj(v) = &t {
            k.extend(v.iter().take(2).map(|(k, _)| k.clone()));
        }
        k
    };
    let mut must_err: Option<&'static str> = None;
    let mut hostile = false;
    let desc = format!("doc{}={} other={} name={:?} pos={} keypath={:?} keys={:?}", if as_text { "(as text)" } else { "" }, t.show(), u.show(), name_arg, pos, kp, keys);
    let which = rng.below(26);
    let (name, f): (&str, Box<dyn Fn(&mut Vec<u8>, &mut Vec<u64>) -> Result<(), String>>) = match which {
        0 => ("Value::write_to_vec", {
            let v = t.to_value();
            Box::new(move |d, _| {
                v.write_to_vec(d);
                Ok(())
            })
        }),
        1 => ("build_array", {
            let k = rng.below(4);
            let a = refcodec::encode(&t);
            let parts: Vec<Vec<u8>> = (0..k).map(|_| if rng.bool() { a.clone() } else { b.clone() }).collect();
            Box::new(move |d, _| e(jsonb::build_array(parts.iter().map(|x| x.as_slice()), d)))
        }),
        2 => ("build_object", {
            // keys in arbitrary order, sometimes repeated (the last of duplicate keys wins)
            let k = rng.below(5);
            let a = refcodec::encode(&t);
            let mut parts: Vec<(String, Vec<u8>)> = (0..k).map(|_| (gen::key(rng), if rng.bool() { a.clone() } else { b.clone() })).collect();
            if !parts.is_empty() && rng.chance(1, 2) {
                let d = (parts[rng.below(parts.len())].0.clone(), b.clone());
                parts.push(d);
            }
            Box::new(move |d, _| e(jsonb::build_object(parts.iter().map(|(k, x)| (k.as_str(), x.as_slice())), d)))
        }),
        3 => ("concat", Box::new(move |d, _| e(jsonb::concat(&a, &b, d)))),
        4 => ("delete_by_name", {
            must_err = documented(refops::delete_by_name(&t, &name_arg));
            Box::new(move |d, _| e(jsonb::delete_by_name(&a, &name_arg, d)))
        }),
        5 => ("delete_by_index", {
            must_err = documented(refops::delete_by_index(&t, pos));
            Box::new(move |d, _| e(jsonb::delete_by_index(&a, pos, d)))
        }),
        6 => ("delete_by_keypath", {
            must_err = documented(refops::delete_by_keypath(&t, &kp));
            let lp = lib_keypath(&kp);
            Box::new(move |d, _| e(jsonb::delete_by_keypath(&a, lp.iter(), d)))
        }),
        7 => ("array_insert", Box::new(move |d, _| e(jsonb::array_insert(&a, pos, &b, d)))),
        8 => ("array_distinct", Box::new(move |d, _| e(jsonb::array_distinct(&a, d)))),
        9 => ("array_intersection", Box::new(move |d, _| e(jsonb::array_intersection(&a, &b, d)))),
        10 => ("array_except", Box::new(move |d, _| e(jsonb::array_except(&a, &b, d)))),
        11 => ("object_insert", {
            let upd = rng.bool();
            must_err = documented(refops::object_insert(&t, &name_arg, &u, upd));
            Box::new(move |d, _| e(jsonb::object_insert(&a, &name_arg, &b, upd, d)))
        }),
        12 => ("object_delete", {
            must_err = documented(refops::object_delete(&t, &keys));
            Box::new(move |d, _| {
                let set: BTreeSet<&str> = keys.iter().map(|s| s.as_str()).collect();
                e(jsonb::object_delete(&a, &set, d))
            })
        }),
        13 => ("object_pick", {
            must_err = documented(refops::object_pick(&t, &keys));
            Box::new(move |d, _| {
                let set: BTreeSet<&str> = keys.iter().map(|s| s.as_str()).collect();
                e(jsonb::object_pick(&a, &set, d))
            })
        }),
        24 => ("hostile(build)", {
            hostile = true;
            let a = refcodec::encode(&t);
            let bad: Vec<u8> = rng.pick(&[&b"true"[..], b"\x20", b"", b"\x80\x00", b"\xc0\x00\x00\x01", b"[1]"]).to_vec();
            Box::new(move |d, _| {
                let _ = jsonb::build_array([a.as_slice(), b.as_slice(), bad.as_slice(), a.as_slice()], d);
                let mut d2 = Vec::new();
                let _ = jsonb::build_object([("k", a.as_slice()), ("l", b.as_slice()), ("z", bad.as_slice())], &mut d2);
                Ok(())
            })
        }),
        14 => ("strip_nulls", Box::new(move |d, _| e(jsonb::strip_nulls(&a, d)))),
        15 => ("convert_to_comparable", Box::new(move |d, _| {
            jsonb::convert_to_comparable(&a, d);
            Ok(())
        })),
        16 => ("Number::compact_encode", {
            let n = gen::num(rng, true).to_lib();
            Box::new(move |d, _| n.compact_encode(d).map(|_| ()).map_err(|x| format!("{:?}", x)))
        }),
        17 => ("LazyValue::write_to_vec", {
            let text = if rng.bool() { refcodec::encode(&t) } else { crate::refjson::compact(&if t.all_finite() { t.clone() } else { Tree::Null }) };
            Box::new(move |d, _| match jsonb::parse_lazy_value(&text) {
                Ok(lv) => {
                    lv.write_to_vec(d);
                    Ok(())
                }
                Err(x) => Err(format!("{:?}", x)),
            })
        }),
        _ => {
            // path selection: convenience functions and the selector in every mode
            let pg = PathGen::new(&t);
            let cfg = PathCfg { max_steps: 3, filters: true, big_indices: false };
            let p = pg.guided_path(rng, &cfg, &t);
            let text = match rng.below(16) {
                // arithmetic parses but cannot be evaluated: an error, and nothing appended
                0 | 1 => (*rng.pick(super::c08::ARITH)).to_string(),
                2 => format!("{} && $ + 1", refpath::render(&refpath::JPath::Predicate(pg.guided_expr(rng, &cfg, &t, &t, true, 1, 1)), &refpath::PLAIN, rng)),
                3 => "$".to_string(),
                _ => refpath::render(&p, &refpath::PLAIN, rng),
            };
            let mode = if which == 25 { 6 } else { which - 18 };
            // the selector itself takes JSONB only; the convenience functions also take text
            let a = if mode >= 3 { refcodec::encode(&t) } else { a };
            let nm = ["get_by_path", "get_by_path_first", "get_by_path_array", "Selector::select(All)", "Selector::select(First)", "Selector::select(Array)", "Selector::select(Mixed)"][mode];
            let desc2 = format!("path={:?} {}", text, desc);
            return Call {
                name: nm.to_string(),
                describe: desc2,
                must_err: None,
                hostile: false,
                f: Box::new(move |d, o| {
                    let p = parse_json_path(text.as_bytes()).map_err(|x| format!("parse:{:?}", x))?;
                    match mode {
                        0 => e(jsonb::get_by_path(&a, p, d, o)),
                        1 => e(jsonb::get_by_path_first(&a, p, d, o)),
                        2 => e(jsonb::get_by_path_array(&a, p, d, o)),
                        m => {
                            let md = [Mode::All, Mode::First, Mode::Array, Mode::Mixed][m - 3].clone();
                            let sel = Selector::new(p, md);
                            e(sel.select(&a, d, o))
                        }
                    }
                }),
            };
        }
    };
    Call { name: name.to_string(), describe: desc, f, must_err, hostile }
}

pub fn run_batch(ctx: &mut Ctx, calls: &[Call], start_data: Vec<u8>, start_offs: Vec<u64>) {
    let mut data = start_data;
    let mut offs = start_offs;
    let mut history: Vec<String> = Vec::new();
    for c in calls {
        ctx.count(&c.name);
        let plen0 = data.len();
        let hist = history.clone();
        let info = || format!("{} ; {} ; earlier calls in this batch: {:?} ; buffer had {} bytes", c.name, c.describe, hist, plen0);
        if c.hostile {
            let (mut d0, mut o0) = (Vec::new(), Vec::new());
            let _ = guard(|| (c.f)(&mut d0, &mut o0));
            history.push(c.name.clone());
            continue;
        }
        // reference run on empty buffers
        let (mut d0, mut o0) = (Vec::new(), Vec::new());
        let r0 = match guard(|| (c.f)(&mut d0, &mut o0)) {
            Ok(r) => r,
            Err(p) => {
                ctx.panic_violation(&c.name, &p, &info);
                continue;
            }
        };
        if matches!(&r0, Err(x) if x.starts_with("parse:")) {
            ctx.count("path.rejected-by-parser(C09 decides)");
            continue;
        }
        if let (Some(why), Ok(())) = (c.must_err, &r0) {
            ctx.violation(&format!("{}/appends-where-documented-error-is-due", c.name), || format!("returned Ok and wrote {} ; documented outcome: Err({}) and nothing appended ; {}", hex(&d0), why, info()));
        }
        let before_d = data.clone();
        let before_o = offs.clone();
        let r1 = match guard(|| (c.f)(&mut data, &mut offs)) {
            Ok(r) => r,
            Err(p) => {
                ctx.panic_violation(&format!("{}(non-empty buffer)", c.name), &p, &info);
                data = before_d;
                offs = before_o;
                continue;
            }
        };
        ctx.count("calls-checked");
        ctx.evals += 1;
        let plen = before_d.len();
        let mut bad = false;
        if data.len() < plen || data[..plen] != before_d[..] {
            bad = true;
            ctx.violation(&format!("{}/earlier-bytes-modified", c.name), || format!("before={} after={} ; {}", hex(&before_d), hex(&data), info()));
        } else if r0.is_ok() != r1.is_ok() {
            bad = true;
            ctx.violation(&format!("{}/outcome-depends-on-buffer", c.name), || format!("empty: {:?} non-empty: {:?} ; {}", r0, r1, info()));
        } else if data[plen..] != d0[..] {
            bad = true;
            ctx.violation(&format!("{}/suffix-differs-from-empty-buffer-output", c.name), || format!("appended={} empty-buffer output={} ; {}", hex(&data[plen..]), hex(&d0), info()));
        }
        // offsets: earlier entries untouched, new entries are positions in the shared buffer
        if offs.len() < before_o.len() || offs[..before_o.len()] != before_o[..] {
            bad = true;
            ctx.violation(&format!("{}/earlier-offsets-modified", c.name), || format!("before={:?} after={:?} ; {}", before_o, offs, info()));
        } else {
            let new: Vec<u64> = offs[before_o.len()..].to_vec();
            let exp: Vec<u64> = o0.iter().map(|x| x + plen as u64).collect();
            if new != exp {
                bad = true;
                ctx.violation(&format!("{}/offsets-not-positions-in-shared-buffer", c.name), || format!("new offsets={:?} expected={:?} (empty-buffer offsets {:?} + {}) ; {}", new, exp, o0, plen, info()));
            }
        }
        if let Err(x) = &r0 {
            if !d0.is_empty() || !o0.is_empty() {
                ctx.violation(&format!("{}/error-appended-bytes", c.name), || format!("Err({}) but wrote {} bytes / {} offsets ; {}", x, d0.len(), o0.len(), info()));
            }
        }
        if bad {
            // keep later checks meaningful
            data = before_d;
            data.extend_from_slice(&d0);
            offs = before_o;
            offs.extend(o0.iter().map(|x| x + plen as u64));
        }
        history.push(c.name.clone());
    }
}

pub fn run(ctx: &mut Ctx) {
    let n = ctx.budget(150_000, 3_000_000);
    for i in 0..n {
        if !ctx.next_case() {
            return;
        }
        let mut rng = ctx.rng.fork();
        let pool: Vec<Tree> = (0..4)
            .map(|k| match k {
                0 => gen::doc(&mut rng, &gen::DOC_SMALL),
                1 => gen::scalar(&mut rng, true),
                _ => gen::doc(&mut rng, &gen::DOC_DEFAULT),
            })
            .collect();
        let mut pool = pool;
        if i % 53 == 7 && !ctx.miri {
            pool.push(gen::big_doc(&mut rng, false));
            pool.push(gen::big_doc(&mut rng, false));
        }
        let ncalls = rng.below(19) + 2;
        let calls: Vec<Call> = (0..ncalls).map(|_| random_call(&mut rng, &pool)).collect();
        // prior buffer content: empty, sentinel bytes, or something that looks like JSONB
        let mut start: Vec<u8> = match i % 3 {
            _ if i % 61 == 9 && !ctx.miri => {
                // a buffer that already holds more than 2^16 (sometimes 2^24 in thorough) bytes
                let n = if ctx.tier == crate::monitor::Tier::Thorough && i % 610 == 9 { (1usize << 24) + 5 } else { 65_530 + rng.below(20) };
                (0..n).map(|k| (k * 31 % 251) as u8).collect()
            }
            0 => vec![],
            1 => vec![0xAA, 0x55, 0x00, 0xFF, 0x80, 0x40, 0x20],
            _ => refcodec::encode(&pool[0]),
        };
        // spare capacity of every size: exactly full, a little room, lots of room
        match rng.below(4) {
            0 => start.shrink_to_fit(),
            1 => start.reserve_exact(1 + rng.below(7)),
            2 => start.reserve(4096 + rng.below(100_000)),
            _ => {}
        }
        let start_offs: Vec<u64> = if i % 2 == 0 { vec![] } else { vec![3, start.len() as u64] };
        ctx.sample(|| format!("batch of {} calls: {:?}", calls.len(), calls.iter().map(|c| c.name.clone()).collect::<Vec<_>>()));
        ctx.distinct(crate::prng::hash_bytes(format!("{:?}", calls.iter().map(|c| &c.describe).collect::<Vec<_>>()).as_bytes()));
        run_batch(ctx, &calls, start, start_offs);
    }
}
