//! C16 — key-path syntax parses to its meaning, prints back faithfully and never panics.

use crate::gen;
use crate::monitor::{guard, Ctx};
use crate::prng::Rng;
use crate::refops::KP;
use crate::refpath;
use crate::tree::{hex, lossy};
use jsonb::keypath::{parse_key_paths, KeyPath};

fn from_lib(k: &KeyPath) -> KP {
    match k {
        KeyPath::Index(i) => KP::Index(*i),
        KeyPath::Name(n) => KP::Name(n.to_string()),
        KeyPath::QuotedName(n) => KP::Quoted(n.to_string()),
    }
}

fn plain_name_ok(n: &str) -> bool {
    refpath::name_is_raw_safe(n) && !n.starts_with(|c: char| c.is_ascii_digit())
}

fn gen_elems(rng: &mut Rng) -> Vec<KP> {
    let n = rng.below(5);
    (0..n)
        .map(|_| match rng.below(3) {
            0 => KP::Index(*rng.pick(&[0, 1, -1, 2, -2, 10, i32::MAX, i32::MIN, 12345, -99999])),
            1 => KP::Quoted(gen::key(rng)),
            _ => {
                let k = gen::key(rng);
                if plain_name_ok(&k) {
                    KP::Name(k)
                } else {
                    KP::Name(format!("n{}", rng.below(100)))
                }
            }
        })
        .collect()
}

fn sp(out: &mut String, rng: &mut Rng, on: bool) {
    if on && rng.chance(1, 2) {
        for _ in 0..rng.below(2) + 1 {
            out.push(*rng.pick(&[' ', '\t', '\n', ' ', '\r']));
        }
    }
}

fn render(elems: &[KP], rng: &mut Rng, spacing: bool) -> String {
    let mut s = String::new();
    sp(&mut s, rng, spacing);
    s.push('{');
    if elems.is_empty() {
        sp(&mut s, rng, spacing);
    }
    for (i, e) in elems.iter().enumerate() {
        if i > 0 {
            s.push(',');
        }
        sp(&mut s, rng, spacing);
        match e {
            KP::Index(v) => {
                if *v > 0 && spacing && rng.chance(1, 5) {
                    s.push('+');
                }
                s.push_str(&v.to_string());
            }
            KP::Quoted(n) => {
                if spacing && rng.bool() {
                    s.push_str(&refpath::quote_esc(n, rng))
                } else {
                    s.push_str(&refpath::quote(n))
                }
            }
            KP::Name(n) => s.push_str(n),
        }
        sp(&mut s, rng, spacing);
    }
    s.push('}');
    sp(&mut s, rng, spacing);
    s
}

fn check_intended(ctx: &mut Ctx, elems: &[KP], text: &str) {
    ctx.evals += 1;
    ctx.count("renderings");
    let info = || format!("text={:?} intended={:?}", text, elems);
    let tag = if elems.iter().any(|e| matches!(e, KP::Quoted(n) if n.is_empty())) { "empty-quoted-name" } else { "plain" };
    let r = guard(|| match parse_key_paths(text.as_bytes()) {
        Ok(k) => {
            let got: Vec<KP> = k.paths.iter().map(from_lib).collect();
            let printed = format!("{}", k);
            let re = parse_key_paths(printed.as_bytes()).map(|q| q == k).map_err(|e| format!("{:?}", e));
            Ok((got, printed, re))
        }
        Err(e) => Err(format!("{:?}", e)),
    });
    match r {
        Err(p) => ctx.panic_violation("parse_key_paths", &p, &info),
        Ok(Err(e)) => ctx.violation(&format!("parse/rejects-documented-form/{}", tag), || format!("{} ; {}", e, info())),
        Ok(Ok((got, printed, re))) => {
            if got != elems {
                ctx.violation(&format!("parse/wrong-elements/{}", tag), || format!("parsed {:?} ; {}", got, info()));
            }
            let no_escapes = elems.iter().all(|e| match e {
                KP::Quoted(n) => !n.chars().any(|c| c == '"' || c == '\\' || (c as u32) < 0x20),
                _ => true,
            });
            if no_escapes {
                ctx.count("print-parse.roundtrips");
                match re {
                    Ok(true) => {}
                    Ok(false) => ctx.violation(&format!("print/reparse-differs/{}", tag), || format!("printed {:?} ; {}", printed, info())),
                    Err(e) => ctx.violation(&format!("print/reparse-rejected/{}", tag), || format!("printed {:?} rejected: {} ; {}", printed, e, info())),
                }
            }
        }
    }
    ctx.distinct(crate::prng::hash_bytes(text.as_bytes()));
}

fn totality(ctx: &mut Ctx, raw: &[u8], class: &str, must_reject: bool) {
    ctx.evals += 1;
    ctx.count(&format!("raw.{}", class));
    let info = || format!("class={} input={:?} bytes={}", class, lossy(raw), hex(raw));
    match guard(|| parse_key_paths(raw).map(|k| format!("{:?}", k)).map_err(|_| ())) {
        Err(p) => ctx.panic_violation("parse_key_paths(raw)", &p, &info),
        Ok(Ok(k)) => {
            if must_reject {
                ctx.violation("parse/accepts-malformed", || format!("accepted as {} ; {}", k, info()));
            }
        }
        Ok(Err(())) => {}
    }
}

const SOUP: &[&str] = &["{", "}", ",", "\"", "\"a\"", "\"a", "a", "1", "-1", "+", "-", " ", "\\", "\\u", "\\u00", "\\u{41}", "\\uD83D", "'", ".", "$", "\u{e9}", "\t", "1a", "a1", "99999999999"];

pub fn run(ctx: &mut Ctx) {
    let n = if ctx.miri { ctx.miri_cases(10) } else { ctx.budget(1_000_000, 20_000_000) };
    for _ in 0..n {
        if !ctx.next_case() {
            return;
        }
        let mut rng = ctx.rng.fork();
        let elems = gen_elems(&mut rng);
        let plain = render(&elems, &mut rng, false);
        check_intended(ctx, &elems, &plain);
        let spaced = render(&elems, &mut rng, true);
        check_intended(ctx, &elems, &spaced);
        ctx.sample(|| spaced.clone());
        if ctx.case_no % 499 == 7 {
            // one quoted name with hundreds of escapes, and names of hundreds of bytes
            let n = *rng.pick(&[255usize, 256, 257, 300, 512, 700]);
            let esc: String = (0..n).map(|k| *rng.pick(&['\n', '"', '\\', '\t', '\u{1}']).min(&if k % 5 == 4 { 'a' } else { '\u{7f}' })).collect();
            let long: String = (0..n).map(|k| (b'a' + (k % 26) as u8) as char).collect();
            for e in [vec![KP::Quoted(esc.clone())], vec![KP::Index(1), KP::Quoted(esc), KP::Name(long.clone())], vec![KP::Quoted(long)]] {
                let t = render(&e, &mut rng, false);
                check_intended(ctx, &e, &t);
                let t = render(&e, &mut rng, true);
                check_intended(ctx, &e, &t);
            }
        }
        // raw totality
        let k = rng.below(6) + 1;
        let mut s = String::new();
        for _ in 0..k {
            s.push_str(*rng.pick(SOUP));
        }
        totality(ctx, s.as_bytes(), "token-soup", false);
        // unterminated quotes and missing braces: must be errors
        let body = *rng.pick(&["abc", "", "a\\", "a\\\"", "\\u12", "\u{1F48E}", "a,b"]);
        for t in [format!("{{\"{}", body), format!("{{a,\"{}", body), format!("{{\"{}}}", body).replace("}}", ""), format!("\"{}", body)] {
            totality(ctx, t.as_bytes(), "unterminated-quote", true);
        }
        for t in ["{a", "a}", "{a,}", "{,a}", "{a b}", "a", "", "{", "}", "{{a}}", "{a}}", "{a}x"] {
            totality(ctx, t.as_bytes(), "missing-brace-or-leftover", true);
        }
        let mut m = plain.as_bytes().to_vec();
        if !m.is_empty() {
            let i = rng.below(m.len());
            match rng.below(3) {
                0 => {
                    m.remove(i);
                }
                1 => m[i] = *rng.pick(b"\"\\{},\xff\x00 "),
                _ => m.truncate(i),
            }
            totality(ctx, &m, "corruption", false);
        }
        let l = rng.below(8);
        let raw: Vec<u8> = (0..l).map(|_| rng.next_u64() as u8).collect();
        totality(ctx, &raw, "random-bytes", false);
        // escapes inside plain names, cut at every length
        {
            let base = *rng.pick(&["{\\u{41}}", "{caf\\u{e9}}", "{a\\u{0041}}", "{a\\u0041b,c}", "{\\u{0041", "{x, y\\u{1F48E}z}", "{a\\\\b}"]);
            let b = base.as_bytes();
            for cut in (1..=b.len()).rev().take(12) {
                totality(ctx, &b[..cut], "escape-in-plain-name", false);
            }
        }
        // a plain name does not start with a digit or a sign: number-like tokens that are not
        // integers are errors, not names
        for t in ["{1e5}", "{2E10,a}", "{10e2b}", "{12abc}", "{1a5}", "{1.5}", "{-1e5}", "{+a}", "{-a}", "{0x10}"] {
            totality(ctx, t.as_bytes(), "digit-or-sign-led-token", true);
        }
        // names are strings: input that is not UTF-8 cannot be a key path, quoted or not
        for base in [plain.as_bytes(), spaced.as_bytes()] {
            let mut m = base.to_vec();
            let bad: &[u8] = *rng.pick(&[&b"\xff"[..], b"\xc3", b"\xed\xa0\x80", b"\xc0\x80", b"\xf8\x88\x80\x80\x80", b"\xe2\x82", b"\x80"]);
            let at = rng.below(m.len() + 1);
            let tail = m.split_off(at);
            m.extend_from_slice(bad);
            m.extend_from_slice(&tail);
            if std::str::from_utf8(&m).is_err() {
                totality(ctx, &m, "invalid-utf8", true);
            }
        }
    }
}
