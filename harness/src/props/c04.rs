//! C04 — compare is a total order matching value equality and the documented ranking.

use super::c18::merge_sort;
use super::common::*;
use crate::gen;
use crate::monitor::{guard, Ctx};
use crate::refops;
use crate::tree::{hex, Tree};
use std::cmp::Ordering;

fn lib_compare(ctx: &mut Ctx, a: &[u8], b: &[u8], info: &dyn Fn() -> String) -> Option<Ordering> {
    ctx.count("compare.calls");
    ctx.evals += 1;
    match guard(|| jsonb::compare(a, b)) {
        Err(p) => {
            ctx.panic_violation("compare", &p, info);
            None
        }
        Ok(Err(e)) => {
            ctx.violation("compare/err-on-valid", || format!("compare returned Err({:?}) on valid documents ; {}", e, info()));
            None
        }
        Ok(Ok(o)) => Some(o),
    }
}

pub fn check_pair(ctx: &mut Ctx, a: &Tree, b: &Tree) {
    let expect = refops::compare(a, b);
    let (ra, rb) = (reprs(a), reprs(b));
    for (la, ba) in &ra {
        for (lb, bb) in &rb {
            let info = || format!("a={} ({}) b={} ({}) a_bytes={} b_bytes={}", a.show(), la, b.show(), lb, hex(ba), hex(bb));
            let ab = match lib_compare(ctx, ba, bb, &info) {
                Some(o) => o,
                None => continue,
            };
            if ab != expect {
                let kind = if *la == "jsonb" && *lb == "jsonb" { "jsonb" } else { "with-text" };
                ctx.violation(&format!("compare/wrong-order/{}/{}", kind, diff_kind(a, b)), || format!("compare={:?} documented order={:?} ; {}", ab, expect, info()));
            }
            if let Some(ba_) = lib_compare(ctx, bb, ba, &info) {
                if ba_ != ab.reverse() {
                    ctx.violation("compare/antisymmetry", || format!("compare(a,b)={:?} compare(b,a)={:?} ; {}", ab, ba_, info()));
                }
            }
        }
    }
    // reflexive
    for (la, ba) in &ra {
        let info = || format!("a={} ({})", a.show(), la);
        if let Some(o) = lib_compare(ctx, ba, ba, &info) {
            if o != Ordering::Equal {
                ctx.violation("compare/reflexivity", || format!("compare(a,a)={:?} ; {}", o, info()));
            }
        }
    }
    if a.nodes() + b.nodes() > 2 {
        ctx.distinct(crate::prng::mix(a.hash64(), b.hash64()));
    }
}

/// where do the documents first differ (for signatures)
fn diff_kind(a: &Tree, b: &Tree) -> &'static str {
    match (a, b) {
        (Tree::Num(_), Tree::Num(_)) => "number",
        (Tree::Str(_), Tree::Str(_)) => "string",
        (Tree::Arr(x), Tree::Arr(y)) => {
            for (p, q) in x.iter().zip(y) {
                if refops::compare(p, q) != Ordering::Equal {
                    return diff_kind(p, q);
                }
            }
            "array-length"
        }
        (Tree::Obj(x), Tree::Obj(y)) => {
            for ((k, p), (l, q)) in x.iter().zip(y) {
                if k != l {
                    return "object-key";
                }
                if refops::compare(p, q) != Ordering::Equal {
                    return diff_kind(p, q);
                }
            }
            "object-size"
        }
        _ => "kind",
    }
}

/// sort a batch with compare and verify every pair against positions (transitivity monitor)
pub fn check_batch(ctx: &mut Ctx, docs: &[Tree]) {
    let enc: Vec<Vec<u8>> = docs.iter().map(|t| crate::refcodec::encode(t)).collect();
    let mut idx: Vec<usize> = (0..docs.len()).collect();
    let r = guard(|| {
        merge_sort(&mut idx, &|i, j| jsonb::compare(&enc[*i], &enc[*j]).unwrap_or(Ordering::Equal));
        idx.clone()
    });
    let sorted = match r {
        Ok(s) => s,
        Err(p) => {
            ctx.panic_violation("compare(batch)", &p, &|| "batch".into());
            return;
        }
    };
    ctx.count("compare.batches");
    for x in 0..sorted.len() {
        for y in x + 1..sorted.len() {
            ctx.count("compare.calls");
            let o = jsonb::compare(&enc[sorted[x]], &enc[sorted[y]]).unwrap_or(Ordering::Equal);
            if o == Ordering::Greater {
                ctx.violation("compare/not-transitive(sorted batch has inverted pair)", || {
                    format!("after sorting with compare, element at {} > element at {}: a={} b={}", x, y, docs[sorted[x]].show(), docs[sorted[y]].show())
                });
                return;
            }
            // Equal <=> equal as JSON values
            let eqv = refops::compare(&docs[sorted[x]], &docs[sorted[y]]) == Ordering::Equal;
            if (o == Ordering::Equal) != eqv {
                ctx.violation("compare/equal-iff-same-value", || format!("compare={:?} but value equality={} : a={} b={}", o, eqv, docs[sorted[x]].show(), docs[sorted[y]].show()));
                return;
            }
        }
    }
}

pub fn batch(rng: &mut crate::prng::Rng, n: usize) -> Vec<Tree> {
    let mut docs: Vec<Tree> = vec![gen::doc(rng, &gen::DOC_SMALL)];
    while docs.len() < n {
        let base = rng.pick(&docs).clone();
        let x = match rng.below(6) {
            0 => gen::doc(rng, &gen::DOC_SMALL),
            1 => gen::scalar(rng, true),
            _ => gen::derive(&base, rng),
        };
        docs.push(x);
    }
    docs
}

pub fn run(ctx: &mut Ctx) {
    // small-scope: all pairs of documents with <= 3 nodes
    let small = gen::enumerate_small(if ctx.miri { 2 } else { 3 });
    let mut k = 0usize;
    for a in small.iter() {
        for b in small.iter() {
            k += 1;
            if k % ctx.nshards != ctx.shard {
                continue;
            }
            if !ctx.next_case() {
                return;
            }
            check_pair(ctx, a, b);
        }
    }
    ctx.exhaustive.insert("all ordered pairs of documents with <=3 nodes".into(), !ctx.miri);
    let mon = super::routes::Monitor::new(&["compare"]);
    let n = ctx.budget(500_000, 10_000_000);
    for i in 0..n {
        if !ctx.next_case() {
            return;
        }
        let mut rng = ctx.rng.fork();
        let (a, b) = pair(&mut rng, if i % 3 == 0 { &gen::DOC_DEFAULT } else { &gen::DOC_SMALL });
        check_pair(ctx, &a, &b);
        if i % 4 == 1 && a.nodes() < 300 && b.nodes() < 300 {
            let args = super::routes::plain_args(&a, &mut rng);
            mon.check(ctx, &a, &b, &args, &mut rng);
        }
        ctx.sample(|| format!("compare({}, {}) = {:?}", a.show(), b.show(), refops::compare(&a, &b)));
        if i % 16 == 0 {
            let docs = batch(&mut rng, 48);
            check_batch(ctx, &docs);
        }
        if i % 16 == 5 {
            let (o1, o2) = gen::resplit_objects(&mut rng);
            check_pair(ctx, &o1, &o2);
            check_pair(ctx, &Tree::Arr(vec![o2.clone(), o1.clone()]), &Tree::Arr(vec![o1, o2]));
        }
        if i % 101 == 7 && !ctx.miri {
            // wide documents, as JSONB and as text
            let w = gen::wide_doc(&mut rng);
            let w2 = gen::derive(&w, &mut rng);
            check_pair(ctx, &w, &w2);
            check_pair(ctx, &w2, &w);
            check_pair(ctx, &w, &w);
        }
    }
}
