//! Reference document type. Independent of the library's byte walkers; the only contact with
//! the library is a structural conversion to/from its public `Value` enum.

use jsonb::{Number, Value};
use std::borrow::Cow;
use std::collections::BTreeMap;

#[derive(Clone, Copy, Debug, PartialEq, Eq, Hash)]
pub enum Num {
    I(i64),
    U(u64),
    F(u64), // f64 bits
}

impl Num {
    pub fn f(v: f64) -> Num {
        Num::F(v.to_bits())
    }
    pub fn as_f64_bits(&self) -> Option<f64> {
        match self {
            Num::F(b) => Some(f64::from_bits(*b)),
            _ => None,
        }
    }
    pub fn is_finite(&self) -> bool {
        match self {
            Num::F(b) => f64::from_bits(*b).is_finite(),
            _ => true,
        }
    }
    pub fn is_nan(&self) -> bool {
        matches!(self, Num::F(b) if f64::from_bits(*b).is_nan())
    }
    /// exact integer value if this is an integer representation
    pub fn int(&self) -> Option<i128> {
        match self {
            Num::I(v) => Some(*v as i128),
            Num::U(v) => Some(*v as i128),
            Num::F(_) => None,
        }
    }
    pub fn to_lib(&self) -> Number {
        match self {
            Num::I(v) => Number::Int64(*v),
            Num::U(v) => Number::UInt64(*v),
            Num::F(b) => Number::Float64(f64::from_bits(*b)),
        }
    }
    pub fn from_lib(n: &Number) -> Num {
        match n {
            Number::Int64(v) => Num::I(*v),
            Number::UInt64(v) => Num::U(*v),
            Number::Float64(v) => Num::F(v.to_bits()),
        }
    }
    /// "same number in the same encoding": what the codec must preserve.
    /// Integer zero has one encoding (decodes unsigned); any NaN is NaN.
    pub fn same_encoding(&self, o: &Num) -> bool {
        match (self.canon(), o.canon()) {
            (Num::I(a), Num::I(b)) => a == b,
            (Num::U(a), Num::U(b)) => a == b,
            (Num::F(a), Num::F(b)) => {
                a == b || (f64::from_bits(a).is_nan() && f64::from_bits(b).is_nan())
            }
            _ => false,
        }
    }
    /// canonical representative of the encoding class (I(0) -> U(0), NaN -> one NaN)
    pub fn canon(&self) -> Num {
        match self {
            Num::I(0) => Num::U(0),
            Num::F(b) if f64::from_bits(*b).is_nan() => Num::F(f64::NAN.to_bits()),
            x => *x,
        }
    }
    pub fn show(&self) -> String {
        match self {
            Num::I(v) => format!("I{}", v),
            Num::U(v) => format!("U{}", v),
            Num::F(b) => format!("F{:?}", f64::from_bits(*b)),
        }
    }
}

#[derive(Clone, Debug, PartialEq, Eq, Hash)]
pub enum Tree {
    Null,
    Bool(bool),
    Num(Num),
    Str(String),
    Arr(Vec<Tree>),
    /// sorted by key bytes, unique
    Obj(Vec<(String, Tree)>),
}

impl Tree {
    pub fn obj_from(mut pairs: Vec<(String, Tree)>) -> Tree {
        // last duplicate wins
        let mut m: BTreeMap<String, Tree> = BTreeMap::new();
        for (k, v) in pairs.drain(..) {
            m.insert(k, v);
        }
        Tree::Obj(m.into_iter().collect())
    }
    pub fn is_scalar(&self) -> bool {
        !matches!(self, Tree::Arr(_) | Tree::Obj(_))
    }
    pub fn is_container(&self) -> bool {
        !self.is_scalar()
    }
    pub fn nodes(&self) -> usize {
        match self {
            Tree::Arr(v) => 1 + v.iter().map(|t| t.nodes()).sum::<usize>(),
            Tree::Obj(v) => 1 + v.iter().map(|(_, t)| t.nodes()).sum::<usize>(),
            _ => 1,
        }
    }
    pub fn depth(&self) -> usize {
        // iterative: deep documents must not overflow the harness' own stack
        let mut max = 0usize;
        let mut stack: Vec<(&Tree, usize)> = vec![(self, 1)];
        while let Some((t, d)) = stack.pop() {
            if d > max {
                max = d;
            }
            match t {
                Tree::Arr(v) => {
                    for c in v {
                        stack.push((c, d + 1));
                    }
                }
                Tree::Obj(v) => {
                    for (_, c) in v {
                        stack.push((c, d + 1));
                    }
                }
                _ => {}
            }
        }
        max
    }
    pub fn all_finite(&self) -> bool {
        match self {
            Tree::Num(n) => n.is_finite(),
            Tree::Arr(v) => v.iter().all(|t| t.all_finite()),
            Tree::Obj(v) => v.iter().all(|(_, t)| t.all_finite()),
            _ => true,
        }
    }
    /// all non-negative integers stored unsigned (what the text parser produces)
    pub fn ints_text_form(&self) -> bool {
        match self {
            Tree::Num(Num::I(v)) => *v < 0,
            Tree::Arr(v) => v.iter().all(|t| t.ints_text_form()),
            Tree::Obj(v) => v.iter().all(|(_, t)| t.ints_text_form()),
            _ => true,
        }
    }
    /// Same document, same number encodings (the codec identity): I(0)==U(0), NaN==NaN.
    pub fn same_encoding(&self, o: &Tree) -> bool {
        match (self, o) {
            (Tree::Null, Tree::Null) => true,
            (Tree::Bool(a), Tree::Bool(b)) => a == b,
            (Tree::Num(a), Tree::Num(b)) => a.same_encoding(b),
            (Tree::Str(a), Tree::Str(b)) => a == b,
            (Tree::Arr(a), Tree::Arr(b)) => {
                a.len() == b.len() && a.iter().zip(b).all(|(x, y)| x.same_encoding(y))
            }
            (Tree::Obj(a), Tree::Obj(b)) => {
                a.len() == b.len()
                    && a.iter().zip(b).all(|((k, x), (l, y))| k == l && x.same_encoding(y))
            }
            _ => false,
        }
    }
    pub fn canon(&self) -> Tree {
        match self {
            Tree::Num(n) => Tree::Num(n.canon()),
            Tree::Arr(v) => Tree::Arr(v.iter().map(|t| t.canon()).collect()),
            Tree::Obj(v) => Tree::Obj(v.iter().map(|(k, t)| (k.clone(), t.canon())).collect()),
            x => x.clone(),
        }
    }
    /// the tree the text parser produces for this document's text: non-negative integers unsigned
    pub fn text_norm(&self) -> Tree {
        match self {
            Tree::Num(Num::I(v)) if *v >= 0 => Tree::Num(Num::U(*v as u64)),
            Tree::Num(n) => Tree::Num(n.canon()),
            Tree::Arr(v) => Tree::Arr(v.iter().map(|t| t.text_norm()).collect()),
            Tree::Obj(v) => Tree::Obj(v.iter().map(|(k, t)| (k.clone(), t.text_norm())).collect()),
            x => x.clone(),
        }
    }
    /// Same JSON value: numbers by exact mathematical value across encodings.
    pub fn same_value(&self, o: &Tree) -> bool {
        crate::refops::compare(self, o) == std::cmp::Ordering::Equal
    }

    pub fn to_value(&self) -> Value<'static> {
        match self {
            Tree::Null => Value::Null,
            Tree::Bool(b) => Value::Bool(*b),
            Tree::Num(n) => Value::Number(n.to_lib()),
            Tree::Str(s) => Value::String(Cow::Owned(s.clone())),
            Tree::Arr(v) => Value::Array(v.iter().map(|t| t.to_value()).collect()),
            Tree::Obj(v) => {
                let mut m = BTreeMap::new();
                for (k, t) in v {
                    m.insert(k.clone(), t.to_value());
                }
                Value::Object(m)
            }
        }
    }
    /// Structural read of the library's public enum. Returns Err if a string is not UTF-8
    /// (checked on raw bytes, never formatting it).
    pub fn from_value(v: &Value) -> Result<Tree, String> {
        Ok(match v {
            Value::Null => Tree::Null,
            Value::Bool(b) => Tree::Bool(*b),
            Value::Number(n) => Tree::Num(Num::from_lib(n)),
            Value::String(s) => {
                let b = s.as_bytes();
                match std::str::from_utf8(b) {
                    Ok(x) => Tree::Str(x.to_string()),
                    Err(_) => return Err(format!("non-UTF-8 string value {}", hex(b))),
                }
            }
            Value::Array(a) => {
                let mut out = Vec::with_capacity(a.len());
                for x in a {
                    out.push(Tree::from_value(x)?);
                }
                Tree::Arr(out)
            }
            Value::Object(o) => {
                let mut out = Vec::with_capacity(o.len());
                for (k, x) in o {
                    let kb = k.as_bytes();
                    if std::str::from_utf8(kb).is_err() {
                        return Err(format!("non-UTF-8 key {}", hex(kb)));
                    }
                    out.push((k.clone(), Tree::from_value(x)?));
                }
                // BTreeMap<String,_> iterates in byte order if keys are valid UTF-8
                Tree::Obj(out)
            }
        })
    }

    /// Compact debug text for samples / witnesses (not JSON: shows number encodings).
    pub fn show(&self) -> String {
        let mut s = String::new();
        self.show_into(&mut s, 0);
        s
    }
    fn show_into(&self, s: &mut String, depth: usize) {
        if s.len() > 600 || depth > 40 {
            s.push('…');
            return;
        }
        match self {
            Tree::Null => s.push_str("null"),
            Tree::Bool(b) => s.push_str(if *b { "true" } else { "false" }),
            Tree::Num(n) => s.push_str(&n.show()),
            Tree::Str(x) => s.push_str(&format!("{:?}", x)),
            Tree::Arr(v) => {
                s.push('[');
                for (i, t) in v.iter().enumerate() {
                    if i > 0 {
                        s.push(',');
                    }
                    t.show_into(s, depth + 1);
                }
                s.push(']');
            }
            Tree::Obj(v) => {
                s.push('{');
                for (i, (k, t)) in v.iter().enumerate() {
                    if i > 0 {
                        s.push(',');
                    }
                    s.push_str(&format!("{:?}:", k));
                    t.show_into(s, depth + 1);
                }
                s.push('}');
            }
        }
    }
    pub fn hash64(&self) -> u64 {
        use std::hash::{Hash, Hasher};
        let mut h = std::collections::hash_map::DefaultHasher::new();
        self.hash(&mut h);
        h.finish()
    }
    /// Drop a deep tree without recursion.
    pub fn drop_iterative(self) {
        let mut stack = vec![self];
        while let Some(t) = stack.pop() {
            match t {
                Tree::Arr(v) => stack.extend(v),
                Tree::Obj(v) => stack.extend(v.into_iter().map(|(_, t)| t)),
                _ => {}
            }
        }
    }
}

pub fn hex(b: &[u8]) -> String {
    let mut s = String::with_capacity(b.len() * 2);
    for (i, x) in b.iter().enumerate() {
        if i >= 400 {
            s.push_str(&format!("…(+{} bytes)", b.len() - i));
            break;
        }
        s.push_str(&format!("{:02x}", x));
    }
    s
}

pub fn unhex(s: &str) -> Vec<u8> {
    let b = s.as_bytes();
    let mut out = Vec::new();
    let mut i = 0;
    while i + 1 < b.len() {
        let h = (b[i] as char).to_digit(16);
        let l = (b[i + 1] as char).to_digit(16);
        match (h, l) {
            (Some(h), Some(l)) => out.push((h * 16 + l) as u8),
            _ => break,
        }
        i += 2;
    }
    out
}

/// printable rendering of possibly non-UTF-8 text
pub fn lossy(b: &[u8]) -> String {
    let s = String::from_utf8_lossy(b);
    let mut out = String::new();
    for (i, c) in s.chars().enumerate() {
        if i > 300 {
            out.push('…');
            break;
        }
        if c.is_control() {
            out.push_str(&format!("\\x{:02x}", c as u32));
        } else {
            out.push(c);
        }
    }
    out
}
