//! Exact cross-representation number comparison. Never goes through a lossy `as f64`.
//! Order: -inf < finite by exact value < +inf < NaN; NaN == NaN; -0.0 == +0.0 == 0.

use crate::tree::Num;
use std::cmp::Ordering;

/// class: 0 = -inf, 1 = finite, 2 = +inf, 3 = NaN
fn class(n: &Num) -> u8 {
    match n {
        Num::F(b) => {
            let f = f64::from_bits(*b);
            if f.is_nan() {
                3
            } else if f == f64::INFINITY {
                2
            } else if f == f64::NEG_INFINITY {
                0
            } else {
                1
            }
        }
        _ => 1,
    }
}

/// Compare an exact integer with a finite double, exactly.
fn cmp_int_float(i: i128, f: f64) -> Ordering {
    // |i| < 2^65. Doubles at or beyond 2^65 in magnitude dominate.
    let lim = 36893488147419103232.0_f64; // 2^65
    if f >= lim {
        return Ordering::Less;
    }
    if f <= -lim {
        return Ordering::Greater;
    }
    let t = f.trunc(); // exact
    let ti = t as i128; // exact for |t| < 2^65
    match i.cmp(&ti) {
        Ordering::Equal => {
            let frac = f - t; // exact (same sign as f or zero)
            if frac > 0.0 {
                Ordering::Less
            } else if frac < 0.0 {
                Ordering::Greater
            } else {
                Ordering::Equal
            }
        }
        o => o,
    }
}

pub fn cmp(a: &Num, b: &Num) -> Ordering {
    let (ca, cb) = (class(a), class(b));
    if ca != cb || ca != 1 {
        return ca.cmp(&cb);
    }
    match (a.int(), b.int()) {
        (Some(x), Some(y)) => x.cmp(&y),
        (Some(x), None) => cmp_int_float(x, a_f(b)),
        (None, Some(y)) => cmp_int_float(y, a_f(a)).reverse(),
        (None, None) => {
            let (x, y) = (a_f(a), a_f(b));
            x.partial_cmp(&y).unwrap() // both finite; -0.0 == 0.0
        }
    }
}

fn a_f(n: &Num) -> f64 {
    match n {
        Num::F(b) => f64::from_bits(*b),
        _ => unreachable!(),
    }
}

pub fn eq(a: &Num, b: &Num) -> bool {
    cmp(a, b) == Ordering::Equal
}

/// nearest double of an exact integer (round-to-nearest-even), computed without `as f64`
/// on the 64-bit value, so that a broken cast in the library is not mirrored here.
pub fn nearest_f64_of_int(i: i128) -> f64 {
    if i == 0 {
        return 0.0;
    }
    let neg = i < 0;
    let m = i.unsigned_abs(); // < 2^65
    let bits = 128 - m.leading_zeros(); // number of significant bits
    let v = if bits <= 53 {
        m as f64 // exact: fits the mantissa
    } else {
        let shift = bits - 53;
        let mut top = m >> shift;
        let rem = m & ((1u128 << shift) - 1);
        let half = 1u128 << (shift - 1);
        if rem > half || (rem == half && (top & 1) == 1) {
            top += 1;
        }
        // top <= 2^53, exact as f64; scale by 2^shift exactly
        (top as f64) * pow2(shift)
    };
    if neg {
        -v
    } else {
        v
    }
}

/// exact power of two (Miri deliberately perturbs `powi`, so the oracle must not use it)
pub fn pow2(e: u32) -> f64 {
    f64::from_bits(((1023 + e as u64) & 0x7ff) << 52)
}

/// shortest compact-number width, from the README rule: 1 (zero / NaN / ±inf),
/// 2, 3, 5 or 9 bytes for integers by the narrowest big-endian width, 9 for finite floats.
pub fn shortest_width(n: &Num) -> usize {
    match n {
        Num::I(0) | Num::U(0) => 1,
        Num::I(v) => {
            if *v >= -128 && *v <= 127 {
                2
            } else if *v >= -32768 && *v <= 32767 {
                3
            } else if *v >= -2147483648 && *v <= 2147483647 {
                5
            } else {
                9
            }
        }
        Num::U(v) => {
            if *v <= 0xFF {
                2
            } else if *v <= 0xFFFF {
                3
            } else if *v <= 0xFFFF_FFFF {
                5
            } else {
                9
            }
        }
        Num::F(b) => {
            if f64::from_bits(*b).is_finite() {
                9
            } else {
                1
            }
        }
    }
}

#[cfg(test)]
mod tests {
    use super::*;
    #[test]
    fn basics() {
        let p53 = 1u64 << 53;
        assert_eq!(cmp(&Num::I(p53 as i64 + 1), &Num::f(p53 as f64)), Ordering::Greater);
        assert_eq!(cmp(&Num::U(p53), &Num::f(p53 as f64)), Ordering::Equal);
        assert_eq!(cmp(&Num::U(u64::MAX), &Num::f(18446744073709551616.0)), Ordering::Less);
        assert_eq!(cmp(&Num::I(0), &Num::f(-0.0)), Ordering::Equal);
        assert_eq!(cmp(&Num::I(1), &Num::f(1.5)), Ordering::Less);
        assert_eq!(cmp(&Num::I(-1), &Num::f(-1.5)), Ordering::Greater);
        assert_eq!(cmp(&Num::f(f64::NAN), &Num::f(f64::INFINITY)), Ordering::Greater);
        assert_eq!(cmp(&Num::f(f64::NAN), &Num::f(f64::NAN)), Ordering::Equal);
        for v in [0i128, 1, -1, (1 << 53) + 1, (1 << 54) + 2, (1 << 54) + 3, u64::MAX as i128, i64::MIN as i128, (1<<53)+3, (1<<60)+129] {
            let expect = if v >= 0 { (v as u64) as f64 } else { (v as i64) as f64 };
            assert_eq!(nearest_f64_of_int(v).to_bits(), expect.to_bits(), "{}", v);
        }
    }
}
