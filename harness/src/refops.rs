//! Tree semantics of the byte-level functions, written from the property statements, the README
//! and the rustdoc — not from the byte walkers.

use crate::refnum;
use crate::tree::{Num, Tree};
use std::cmp::Ordering;

// ------------------------------------------------------------------ compare (C04)

fn rank(t: &Tree) -> u8 {
    match t {
        Tree::Null => 7,
        Tree::Arr(_) => 6,
        Tree::Obj(_) => 5,
        Tree::Str(_) => 4,
        Tree::Num(_) => 3,
        Tree::Bool(true) => 2,
        Tree::Bool(false) => 1,
    }
}

pub fn compare(a: &Tree, b: &Tree) -> Ordering {
    let (ra, rb) = (rank(a), rank(b));
    if ra != rb {
        return ra.cmp(&rb);
    }
    match (a, b) {
        (Tree::Str(x), Tree::Str(y)) => x.as_bytes().cmp(y.as_bytes()),
        (Tree::Num(x), Tree::Num(y)) => refnum::cmp(x, y),
        (Tree::Arr(x), Tree::Arr(y)) => {
            for (p, q) in x.iter().zip(y.iter()) {
                let o = compare(p, q);
                if o != Ordering::Equal {
                    return o;
                }
            }
            x.len().cmp(&y.len())
        }
        (Tree::Obj(x), Tree::Obj(y)) => {
            for ((k, p), (l, q)) in x.iter().zip(y.iter()) {
                let o = k.as_bytes().cmp(l.as_bytes());
                if o != Ordering::Equal {
                    return o;
                }
                let o = compare(p, q);
                if o != Ordering::Equal {
                    return o;
                }
            }
            x.len().cmp(&y.len())
        }
        _ => Ordering::Equal, // null/null, true/true, false/false
    }
}

// ------------------------------------------------------------------ contains (C12)

fn scalar_eq(a: &Tree, b: &Tree) -> bool {
    a.is_scalar() && b.is_scalar() && compare(a, b) == Ordering::Equal
}

pub fn contains(a: &Tree, b: &Tree) -> bool {
    // top level only: array contains a bare scalar equal to one of its elements
    if let (Tree::Arr(xs), true) = (a, b.is_scalar()) {
        return xs.iter().any(|x| scalar_eq(x, b));
    }
    contains_inner(a, b)
}

fn contains_inner(a: &Tree, b: &Tree) -> bool {
    match (a, b) {
        (Tree::Obj(x), Tree::Obj(y)) => y.iter().all(|(k, bv)| {
            match x.iter().find(|(l, _)| l == k) {
                None => false,
                Some((_, av)) => {
                    if av.is_scalar() && bv.is_scalar() {
                        scalar_eq(av, bv)
                    } else if av.is_container() && bv.is_container() {
                        // same container kind required
                        contains_inner(av, bv)
                    } else {
                        false
                    }
                }
            }
        }),
        (Tree::Arr(x), Tree::Arr(y)) => y.iter().all(|bv| {
            if bv.is_scalar() {
                x.iter().any(|av| scalar_eq(av, bv))
            } else {
                x.iter().any(|av| av.is_container() && contains_inner(av, bv))
            }
        }),
        (x, y) if x.is_scalar() && y.is_scalar() => scalar_eq(x, y),
        _ => false,
    }
}

// ------------------------------------------------------------------ accessors (C05)

pub fn get_by_index(t: &Tree, i: usize) -> Option<Tree> {
    match t {
        Tree::Arr(v) => v.get(i).cloned(),
        _ => None,
    }
}

pub fn get_by_name(t: &Tree, name: &str, ignore_case: bool) -> Option<Tree> {
    match t {
        Tree::Obj(v) => {
            if let Some((_, x)) = v.iter().find(|(k, _)| k == name) {
                return Some(x.clone());
            }
            if ignore_case {
                if let Some((_, x)) = v.iter().find(|(k, _)| k.eq_ignore_ascii_case(name)) {
                    return Some(x.clone());
                }
            }
            None
        }
        _ => None,
    }
}

#[derive(Clone, Debug, PartialEq)]
pub enum KP {
    Index(i32),
    Name(String),
    Quoted(String),
}

pub fn resolve_index(len: usize, idx: i32) -> Option<usize> {
    let l = len as i64;
    let i = idx as i64;
    let r = if i < 0 { l + i } else { i };
    if r >= 0 && r < l {
        Some(r as usize)
    } else {
        None
    }
}

pub fn get_by_keypath(t: &Tree, path: &[KP]) -> Option<Tree> {
    let mut cur = t;
    for p in path {
        cur = match (p, cur) {
            (KP::Index(i), Tree::Arr(v)) => &v[resolve_index(v.len(), *i)?],
            (KP::Name(n), Tree::Obj(v)) | (KP::Quoted(n), Tree::Obj(v)) => {
                &v.iter().find(|(k, _)| k == n)?.1
            }
            _ => return None,
        };
    }
    Some(cur.clone())
}

pub fn type_of(t: &Tree) -> &'static str {
    match t {
        Tree::Null => "null",
        Tree::Bool(_) => "boolean",
        Tree::Num(_) => "number",
        Tree::Str(_) => "string",
        Tree::Arr(_) => "array",
        Tree::Obj(_) => "object",
    }
}

pub fn as_i64(n: &Num) -> Option<i64> {
    let v = n.int()?;
    if v >= i64::MIN as i128 && v <= i64::MAX as i128 {
        Some(v as i64)
    } else {
        None
    }
}
pub fn as_u64(n: &Num) -> Option<u64> {
    let v = n.int()?;
    if v >= 0 && v <= u64::MAX as i128 {
        Some(v as u64)
    } else {
        None
    }
}
pub fn as_f64(n: &Num) -> f64 {
    match n {
        Num::F(b) => f64::from_bits(*b),
        _ => refnum::nearest_f64_of_int(n.int().unwrap()),
    }
}

pub fn exists_key(t: &Tree, key: &str) -> bool {
    match t {
        Tree::Obj(v) => v.iter().any(|(k, _)| k == key),
        Tree::Arr(v) => v.iter().any(|x| matches!(x, Tree::Str(s) if s == key)),
        _ => false,
    }
}

/// every key and every string value at any depth (multiset, order not specified)
pub fn all_strings(t: &Tree, out: &mut Vec<String>) {
    match t {
        Tree::Str(s) => out.push(s.clone()),
        Tree::Arr(v) => v.iter().for_each(|x| all_strings(x, out)),
        Tree::Obj(v) => v.iter().for_each(|(k, x)| {
            out.push(k.clone());
            all_strings(x, out)
        }),
        _ => {}
    }
}

// ------------------------------------------------------------------ editors (C06)

#[derive(Debug, Clone, PartialEq)]
pub enum Edit {
    Ok(Tree),
    /// documented error (wrong container kind / duplicate key without update flag)
    Err(&'static str),
}

fn as_list(t: &Tree) -> Vec<Tree> {
    match t {
        Tree::Arr(v) => v.clone(),
        x => vec![x.clone()],
    }
}

pub fn concat(a: &Tree, b: &Tree) -> Tree {
    match (a, b) {
        (Tree::Obj(x), Tree::Obj(y)) => {
            let mut all = x.clone();
            all.extend(y.iter().cloned());
            Tree::obj_from(all)
        }
        _ => {
            let mut l = as_list(a);
            l.extend(as_list(b));
            Tree::Arr(l)
        }
    }
}

pub fn delete_by_name(t: &Tree, name: &str) -> Edit {
    match t {
        Tree::Obj(v) => Edit::Ok(Tree::Obj(v.iter().filter(|(k, _)| k != name).cloned().collect())),
        Tree::Arr(v) => Edit::Ok(Tree::Arr(
            v.iter().filter(|x| !matches!(x, Tree::Str(s) if s == name)).cloned().collect(),
        )),
        _ => Edit::Err("InvalidJsonType"),
    }
}

pub fn delete_by_index(t: &Tree, idx: i32) -> Edit {
    match t {
        Tree::Arr(v) => {
            let mut v = v.clone();
            if let Some(i) = resolve_index(v.len(), idx) {
                v.remove(i);
            }
            Edit::Ok(Tree::Arr(v))
        }
        _ => Edit::Err("InvalidJsonType"),
    }
}

/// None = path did not address anything (document unchanged)
fn del_path(t: &Tree, path: &[KP]) -> Option<Tree> {
    let (first, rest) = path.split_first()?;
    match (first, t) {
        (KP::Index(i), Tree::Arr(v)) => {
            let i = resolve_index(v.len(), *i)?;
            let mut v = v.clone();
            if rest.is_empty() {
                v.remove(i);
            } else {
                v[i] = del_path(&v[i], rest)?;
            }
            Some(Tree::Arr(v))
        }
        (KP::Name(n), Tree::Obj(v)) | (KP::Quoted(n), Tree::Obj(v)) => {
            let pos = v.iter().position(|(k, _)| k == n)?;
            let mut v = v.clone();
            if rest.is_empty() {
                v.remove(pos);
            } else {
                v[pos].1 = del_path(&v[pos].1, rest)?;
            }
            Some(Tree::Obj(v))
        }
        _ => None,
    }
}

pub fn delete_by_keypath(t: &Tree, path: &[KP]) -> Edit {
    if t.is_scalar() {
        return Edit::Err("InvalidJsonType");
    }
    Edit::Ok(del_path(t, path).unwrap_or_else(|| t.clone()))
}

pub fn array_insert(t: &Tree, pos: i32, new: &Tree) -> Tree {
    let mut l = as_list(t);
    let len = l.len() as i64;
    let p = pos as i64;
    let idx = if p < 0 { len + p } else { p };
    let idx = idx.clamp(0, len) as usize;
    l.insert(idx, new.clone());
    Tree::Arr(l)
}

pub fn object_insert(t: &Tree, key: &str, new: &Tree, update: bool) -> Edit {
    match t {
        Tree::Obj(v) => {
            if v.iter().any(|(k, _)| k == key) && !update {
                return Edit::Err("ObjectDuplicateKey");
            }
            let mut all = v.clone();
            all.push((key.to_string(), new.clone()));
            Edit::Ok(Tree::obj_from(all))
        }
        _ => Edit::Err("InvalidObject"),
    }
}

pub fn object_delete(t: &Tree, keys: &[String]) -> Edit {
    match t {
        Tree::Obj(v) => Edit::Ok(Tree::Obj(v.iter().filter(|(k, _)| !keys.contains(k)).cloned().collect())),
        _ => Edit::Err("InvalidObject"),
    }
}

pub fn object_pick(t: &Tree, keys: &[String]) -> Edit {
    match t {
        Tree::Obj(v) => Edit::Ok(Tree::Obj(v.iter().filter(|(k, _)| keys.contains(k)).cloned().collect())),
        _ => Edit::Err("InvalidObject"),
    }
}

pub fn strip_nulls(t: &Tree) -> Tree {
    match t {
        Tree::Arr(v) => Tree::Arr(v.iter().map(strip_nulls).collect()),
        Tree::Obj(v) => Tree::Obj(
            v.iter()
                .filter(|(_, x)| !matches!(x, Tree::Null))
                .map(|(k, x)| (k.clone(), strip_nulls(x)))
                .collect(),
        ),
        x => x.clone(),
    }
}

// ------------------------------------------------------------------ set functions (C13)
// identity = same JSON value in the same number encoding = equal canonical trees

pub fn elems(t: &Tree) -> Vec<Tree> {
    as_list(t).into_iter().map(|x| x.canon()).collect()
}

pub fn distinct(t: &Tree) -> Tree {
    let mut out: Vec<Tree> = Vec::new();
    for x in elems(t) {
        if !out.contains(&x) {
            out.push(x);
        }
    }
    Tree::Arr(out)
}

/// returns (intersection, except)
pub fn inter_except(a: &Tree, b: &Tree) -> (Tree, Tree) {
    let mut pool = elems(b);
    let mut keep = Vec::new();
    let mut rest = Vec::new();
    for x in elems(a) {
        if let Some(p) = pool.iter().position(|y| *y == x) {
            pool.remove(p);
            keep.push(x);
        } else {
            rest.push(x);
        }
    }
    (Tree::Arr(keep), Tree::Arr(rest))
}
