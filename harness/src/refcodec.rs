//! Independent JSONB encoder and *strict* decoder written from README.md's layout description.
//! "Canonical" = strict_decode(bytes) succeeds and encode(decoded) == bytes.

use crate::tree::{Num, Tree};

const ARRAY: u32 = 0x8000_0000;
const OBJECT: u32 = 0x4000_0000;
const SCALAR: u32 = 0x2000_0000;
const HDR_TYPE: u32 = 0xE000_0000;
const HDR_LEN: u32 = 0x1FFF_FFFF;

const J_NULL: u32 = 0x0000_0000;
const J_STRING: u32 = 0x1000_0000;
const J_NUMBER: u32 = 0x2000_0000;
const J_FALSE: u32 = 0x3000_0000;
const J_TRUE: u32 = 0x4000_0000;
const J_CONTAINER: u32 = 0x5000_0000;
const J_TYPE: u32 = 0x7000_0000;
const J_LEN: u32 = 0x0FFF_FFFF;

pub fn encode_num(n: &Num, out: &mut Vec<u8>) {
    match n {
        Num::I(0) | Num::U(0) => out.push(0x00),
        Num::I(v) => {
            out.push(0x40);
            if *v >= i8::MIN as i64 && *v <= i8::MAX as i64 {
                out.extend_from_slice(&(*v as i8).to_be_bytes());
            } else if *v >= i16::MIN as i64 && *v <= i16::MAX as i64 {
                out.extend_from_slice(&(*v as i16).to_be_bytes());
            } else if *v >= i32::MIN as i64 && *v <= i32::MAX as i64 {
                out.extend_from_slice(&(*v as i32).to_be_bytes());
            } else {
                out.extend_from_slice(&v.to_be_bytes());
            }
        }
        Num::U(v) => {
            out.push(0x50);
            if *v <= u8::MAX as u64 {
                out.push(*v as u8);
            } else if *v <= u16::MAX as u64 {
                out.extend_from_slice(&(*v as u16).to_be_bytes());
            } else if *v <= u32::MAX as u64 {
                out.extend_from_slice(&(*v as u32).to_be_bytes());
            } else {
                out.extend_from_slice(&v.to_be_bytes());
            }
        }
        Num::F(b) => {
            let f = f64::from_bits(*b);
            if f.is_nan() {
                out.push(0x10);
            } else if f == f64::INFINITY {
                out.push(0x20);
            } else if f == f64::NEG_INFINITY {
                out.push(0x30);
            } else {
                out.push(0x60);
                out.extend_from_slice(&b.to_be_bytes());
            }
        }
    }
}

/// Strict number decoder: shortest form only, exact widths.
pub fn decode_num_strict(b: &[u8]) -> Result<Num, String> {
    if b.is_empty() {
        return Err("empty number payload".into());
    }
    let n = match (b[0], b.len() - 1) {
        (0x00, 0) => Num::U(0),
        (0x10, 0) => Num::F(f64::NAN.to_bits()),
        (0x20, 0) => Num::F(f64::INFINITY.to_bits()),
        (0x30, 0) => Num::F(f64::NEG_INFINITY.to_bits()),
        (0x40, 1) => Num::I(b[1] as i8 as i64),
        (0x40, 2) => Num::I(i16::from_be_bytes([b[1], b[2]]) as i64),
        (0x40, 4) => Num::I(i32::from_be_bytes([b[1], b[2], b[3], b[4]]) as i64),
        (0x40, 8) => Num::I(i64::from_be_bytes(b[1..9].try_into().unwrap())),
        (0x50, 1) => Num::U(b[1] as u64),
        (0x50, 2) => Num::U(u16::from_be_bytes([b[1], b[2]]) as u64),
        (0x50, 4) => Num::U(u32::from_be_bytes([b[1], b[2], b[3], b[4]]) as u64),
        (0x50, 8) => Num::U(u64::from_be_bytes(b[1..9].try_into().unwrap())),
        (0x60, 8) => {
            let f = f64::from_be_bytes(b[1..9].try_into().unwrap());
            if !f.is_finite() {
                return Err("non-finite float stored in 9-byte form".into());
            }
            Num::F(f.to_bits())
        }
        (t, l) => return Err(format!("bad number tag/width {:#04x}/{}", t, l)),
    };
    let mut re = Vec::new();
    encode_num(&n, &mut re);
    if re != b {
        return Err(format!("number not in shortest form: {:02x?}", b));
    }
    Ok(n)
}

fn put_u32(out: &mut Vec<u8>, v: u32) {
    out.extend_from_slice(&v.to_be_bytes());
}

/// returns (entry word, payload)
fn encode_entry(t: &Tree) -> (u32, Vec<u8>) {
    match t {
        Tree::Null => (J_NULL, vec![]),
        Tree::Bool(false) => (J_FALSE, vec![]),
        Tree::Bool(true) => (J_TRUE, vec![]),
        Tree::Num(n) => {
            let mut p = Vec::new();
            encode_num(n, &mut p);
            (J_NUMBER | p.len() as u32, p)
        }
        Tree::Str(s) => (J_STRING | s.len() as u32, s.as_bytes().to_vec()),
        Tree::Arr(_) | Tree::Obj(_) => {
            let p = encode_container(t);
            (J_CONTAINER | p.len() as u32, p)
        }
    }
}

fn encode_container(t: &Tree) -> Vec<u8> {
    let mut out = Vec::new();
    match t {
        Tree::Arr(items) => {
            put_u32(&mut out, ARRAY | items.len() as u32);
            let mut payloads = Vec::new();
            for it in items {
                let (e, p) = encode_entry(it);
                put_u32(&mut out, e);
                payloads.extend_from_slice(&p);
            }
            out.extend_from_slice(&payloads);
        }
        Tree::Obj(members) => {
            assert!(
                members.windows(2).all(|w| w[0].0.as_bytes() < w[1].0.as_bytes()),
                "harness bug: reference object with unsorted or duplicate keys"
            );
            put_u32(&mut out, OBJECT | members.len() as u32);
            let mut keys = Vec::new();
            let mut vals = Vec::new();
            let mut val_entries = Vec::new();
            for (k, v) in members {
                put_u32(&mut out, J_STRING | k.len() as u32);
                keys.extend_from_slice(k.as_bytes());
                let (e, p) = encode_entry(v);
                val_entries.push(e);
                vals.extend_from_slice(&p);
            }
            for e in val_entries {
                put_u32(&mut out, e);
            }
            out.extend_from_slice(&keys);
            out.extend_from_slice(&vals);
        }
        _ => unreachable!(),
    }
    out
}

pub fn encode(t: &Tree) -> Vec<u8> {
    match t {
        Tree::Arr(_) | Tree::Obj(_) => encode_container(t),
        _ => {
            let mut out = Vec::new();
            put_u32(&mut out, SCALAR);
            let (e, p) = encode_entry(t);
            put_u32(&mut out, e);
            out.extend_from_slice(&p);
            out
        }
    }
}

fn rd(b: &[u8], at: usize) -> Result<u32, String> {
    b.get(at..at + 4)
        .map(|s| u32::from_be_bytes(s.try_into().unwrap()))
        .ok_or_else(|| format!("truncated word at {}", at))
}

fn decode_payload(entry: u32, p: &[u8], depth: usize) -> Result<Tree, String> {
    if entry & 0x8000_0000 != 0 {
        return Err("entry has offset flag set".into());
    }
    let ty = entry & J_TYPE;
    let len = (entry & J_LEN) as usize;
    if len != p.len() {
        return Err("internal: payload length mismatch".into());
    }
    match ty {
        J_NULL | J_FALSE | J_TRUE => {
            if len != 0 {
                return Err("null/bool entry with non-zero length".into());
            }
            Ok(match ty {
                J_NULL => Tree::Null,
                J_FALSE => Tree::Bool(false),
                _ => Tree::Bool(true),
            })
        }
        J_STRING => match std::str::from_utf8(p) {
            Ok(s) => Ok(Tree::Str(s.to_string())),
            Err(_) => Err("string payload is not UTF-8".into()),
        },
        J_NUMBER => Ok(Tree::Num(decode_num_strict(p)?)),
        J_CONTAINER => decode_container(p, depth + 1),
        _ => Err(format!("unknown entry type {:#x}", ty)),
    }
}

fn decode_container(b: &[u8], depth: usize) -> Result<Tree, String> {
    if depth > 3000 {
        return Err("too deep for the reference decoder".into());
    }
    let h = rd(b, 0)?;
    let n = (h & HDR_LEN) as usize;
    match h & HDR_TYPE {
        ARRAY => {
            if b.len() < 4 + 4 * n {
                return Err("array entry table truncated".into());
            }
            let mut off = 4 + 4 * n;
            let mut items = Vec::with_capacity(n);
            for i in 0..n {
                let e = rd(b, 4 + 4 * i)?;
                let len = (e & J_LEN) as usize;
                let p = b.get(off..off + len).ok_or("array payload out of bounds")?;
                items.push(decode_payload(e, p, depth)?);
                off += len;
            }
            if off != b.len() {
                return Err(format!("array: {} trailing bytes / length mismatch", b.len() - off));
            }
            Ok(Tree::Arr(items))
        }
        OBJECT => {
            if b.len() < 4 + 8 * n {
                return Err("object entry table truncated".into());
            }
            let mut off = 4 + 8 * n;
            let mut keys: Vec<String> = Vec::with_capacity(n);
            for i in 0..n {
                let e = rd(b, 4 + 4 * i)?;
                if e & 0x8000_0000 != 0 || e & J_TYPE != J_STRING {
                    return Err("object key entry is not string-typed".into());
                }
                let len = (e & J_LEN) as usize;
                let p = b.get(off..off + len).ok_or("key payload out of bounds")?;
                let k = std::str::from_utf8(p).map_err(|_| "key is not UTF-8")?;
                if let Some(prev) = keys.last() {
                    if prev.as_bytes() >= k.as_bytes() {
                        return Err(format!("keys not strictly sorted: {:?} then {:?}", prev, k));
                    }
                }
                keys.push(k.to_string());
                off += len;
            }
            let mut members = Vec::with_capacity(n);
            for (i, k) in keys.into_iter().enumerate() {
                let e = rd(b, 4 + 4 * n + 4 * i)?;
                let len = (e & J_LEN) as usize;
                let p = b.get(off..off + len).ok_or("value payload out of bounds")?;
                members.push((k, decode_payload(e, p, depth)?));
                off += len;
            }
            if off != b.len() {
                return Err(format!("object: {} trailing bytes / length mismatch", b.len() - off));
            }
            Ok(Tree::Obj(members))
        }
        SCALAR => Err("scalar header used as nested container".into()),
        t => Err(format!("unknown header type {:#x}", t)),
    }
}

/// Strict decode of a complete document.
pub fn strict_decode(b: &[u8]) -> Result<Tree, String> {
    let h = rd(b, 0)?;
    match h & HDR_TYPE {
        SCALAR => {
            if h != SCALAR {
                return Err("scalar header with non-zero count".into());
            }
            let e = rd(b, 4)?;
            if e & J_TYPE == J_CONTAINER {
                return Err("scalar header wrapping a container entry".into());
            }
            let len = (e & J_LEN) as usize;
            if b.len() != 8 + len {
                return Err("scalar payload length mismatch / trailing bytes".into());
            }
            decode_payload(e, &b[8..], 0)
        }
        ARRAY | OBJECT => decode_container(b, 0),
        t => Err(format!("unknown header type {:#x}", t)),
    }
}

/// canonical check: Ok(tree) iff strict-decodes and re-encodes identically
pub fn canonical(b: &[u8]) -> Result<Tree, String> {
    let t = strict_decode(b)?;
    let re = encode(&t);
    if re != b {
        return Err("re-encoding differs".into());
    }
    Ok(t)
}

#[cfg(test)]
mod tests {
    use super::*;
    #[test]
    fn readme_example() {
        // README: {"a":10} style pins; encode tests pin scalar forms
        let t = Tree::Obj(vec![("k".into(), Tree::Str("v".into()))]);
        let b = encode(&t);
        assert_eq!(
            b,
            vec![0x40, 0, 0, 1, 0x10, 0, 0, 1, 0x10, 0, 0, 1, 0x6b, 0x76]
        );
        assert_eq!(strict_decode(&b).unwrap(), t);
        let n = encode(&Tree::Num(Num::U(10)));
        assert_eq!(n, vec![0x20, 0, 0, 0, 0x20, 0, 0, 2, 0x50, 0x0a]);
    }
}
