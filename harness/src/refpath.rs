//! Reference JSONPath / key-path AST, renderer with spelling variants, and evaluator on trees.

use crate::prng::Rng;
use crate::refnum;
use crate::tree::{Num, Tree};
use std::cmp::Ordering;

#[derive(Clone, Debug, PartialEq)]
pub enum Idx {
    I(i32),
    /// last + n (n may be negative)
    Last(i32),
}

#[derive(Clone, Debug, PartialEq)]
pub enum AIdx {
    One(Idx),
    Range(Idx, Idx),
}

#[derive(Clone, Debug, PartialEq)]
pub enum NameStyle {
    Dot,
    Colon,
    Bracket,
}

#[derive(Clone, Debug, PartialEq)]
pub enum Step {
    DotWild,
    BracketWild,
    /// name + the way it is written (style is not part of the meaning)
    Name(String, NameStyle),
    Indices(Vec<AIdx>),
    Filter(Box<Expr>),
}

#[derive(Clone, Debug, PartialEq)]
pub enum Lit {
    Null,
    Bool(bool),
    Num(Num),
    Str(String),
}

#[derive(Clone, Copy, Debug, PartialEq)]
pub enum Cmp {
    Eq,
    Ne,
    Lt,
    Le,
    Gt,
    Ge,
}

#[derive(Clone, Debug, PartialEq)]
pub enum Operand {
    Lit(Lit),
    /// from_root ($) or current (@); steps never contain filters
    Path(bool, Vec<Step>),
}

#[derive(Clone, Debug, PartialEq)]
pub enum Expr {
    Cmp(Cmp, Operand, Operand),
    And(Box<Expr>, Box<Expr>),
    Or(Box<Expr>, Box<Expr>),
    /// exists(path): from_root, steps (may contain filters)
    Exists(bool, Vec<Step>),
    /// arithmetic forms the parser admits; evaluation must not panic (Err accepted)
    Arith(String),
    /// binary arithmetic `l op r` with op in + - * / %
    ArithBin(char, Operand, Operand),
    /// unary arithmetic `+x` / `-x`
    ArithUn(char, Operand),
}

#[derive(Clone, Debug, PartialEq)]
pub enum JPath {
    /// `$` steps
    Steps(Vec<Step>),
    /// stand-alone predicate ($-rooted operands only)
    Predicate(Expr),
}

// ------------------------------------------------------------------ conversion from the library AST

pub mod fromlib {
    use super::*;
    use jsonb::jsonpath as jp;

    fn idx(i: &jp::Index) -> Idx {
        match i {
            jp::Index::Index(v) => Idx::I(*v),
            jp::Index::LastIndex(v) => Idx::Last(*v),
        }
    }
    fn step(p: &jp::Path) -> Result<Step, String> {
        Ok(match p {
            jp::Path::DotWildcard => Step::DotWild,
            jp::Path::BracketWildcard => Step::BracketWild,
            jp::Path::DotField(n) => Step::Name(n.to_string(), NameStyle::Dot),
            jp::Path::ColonField(n) => Step::Name(n.to_string(), NameStyle::Colon),
            jp::Path::ObjectField(n) => Step::Name(n.to_string(), NameStyle::Bracket),
            jp::Path::ArrayIndices(v) => Step::Indices(
                v.iter()
                    .map(|a| match a {
                        jp::ArrayIndex::Index(i) => AIdx::One(idx(i)),
                        jp::ArrayIndex::Slice((s, e)) => AIdx::Range(idx(s), idx(e)),
                    })
                    .collect(),
            ),
            jp::Path::FilterExpr(e) => Step::Filter(Box::new(expr(e)?)),
            other => return Err(format!("unexpected path element {:?}", other)),
        })
    }
    fn operand(e: &jp::Expr) -> Result<Operand, String> {
        match e {
            jp::Expr::Value(v) => Ok(Operand::Lit(match &**v {
                jp::PathValue::Null => Lit::Null,
                jp::PathValue::Boolean(b) => Lit::Bool(*b),
                jp::PathValue::Number(n) => Lit::Num(Num::from_lib(n)),
                jp::PathValue::String(s) => Lit::Str(s.to_string()),
            })),
            jp::Expr::Paths(ps) => {
                let root = match ps.first() {
                    Some(jp::Path::Root) => true,
                    Some(jp::Path::Current) => false,
                    o => return Err(format!("operand path starts with {:?}", o)),
                };
                let mut steps = Vec::new();
                for p in &ps[1..] {
                    steps.push(step(p)?);
                }
                Ok(Operand::Path(root, steps))
            }
            other => Err(format!("unexpected operand {:?}", other)),
        }
    }
    pub fn expr(e: &jp::Expr) -> Result<Expr, String> {
        Ok(match e {
            jp::Expr::BinaryOp { op, left, right } => match op {
                jp::BinaryOperator::And => Expr::And(Box::new(expr(left)?), Box::new(expr(right)?)),
                jp::BinaryOperator::Or => Expr::Or(Box::new(expr(left)?), Box::new(expr(right)?)),
                o => {
                    let c = match o {
                        jp::BinaryOperator::Eq => Cmp::Eq,
                        jp::BinaryOperator::NotEq => Cmp::Ne,
                        jp::BinaryOperator::Lt => Cmp::Lt,
                        jp::BinaryOperator::Lte => Cmp::Le,
                        jp::BinaryOperator::Gt => Cmp::Gt,
                        jp::BinaryOperator::Gte => Cmp::Ge,
                        _ => unreachable!(),
                    };
                    Expr::Cmp(c, operand(left)?, operand(right)?)
                }
            },
            jp::Expr::FilterFunc(jp::FilterFunc::Exists(ps)) => {
                let root = match ps.first() {
                    Some(jp::Path::Root) => true,
                    Some(jp::Path::Current) => false,
                    o => return Err(format!("exists path starts with {:?}", o)),
                };
                let mut steps = Vec::new();
                for p in &ps[1..] {
                    steps.push(step(p)?);
                }
                Expr::Exists(root, steps)
            }
            jp::Expr::ArithmeticFunc(jp::ArithmeticFunc::Binary { op, left, right }) => {
                let c = match op {
                    jp::BinaryArithmeticOperator::Add => '+',
                    jp::BinaryArithmeticOperator::Subtract => '-',
                    jp::BinaryArithmeticOperator::Multiply => '*',
                    jp::BinaryArithmeticOperator::Divide => '/',
                    jp::BinaryArithmeticOperator::Modulus => '%',
                };
                Expr::ArithBin(c, operand(left)?, operand(right)?)
            }
            jp::Expr::ArithmeticFunc(jp::ArithmeticFunc::Unary { op, operand: o }) => {
                let c = match op {
                    jp::UnaryArithmeticOperator::Add => '+',
                    jp::UnaryArithmeticOperator::Subtract => '-',
                };
                Expr::ArithUn(c, operand(o)?)
            }
            other => return Err(format!("unexpected expr {:?}", other)),
        })
    }
    pub fn path(p: &jp::JsonPath) -> Result<JPath, String> {
        if p.paths.len() == 1 {
            if let jp::Path::Predicate(e) = &p.paths[0] {
                return Ok(JPath::Predicate(expr(e)?));
            }
        }
        let mut steps = Vec::new();
        for (i, e) in p.paths.iter().enumerate() {
            match e {
                jp::Path::Root if i == 0 => {}
                other => steps.push(step(other)?),
            }
        }
        Ok(JPath::Steps(steps))
    }
}

/// Equality of meaning-bearing structure: name *style* is ignored (it is spelling).
pub fn same_structure(a: &JPath, b: &JPath) -> bool {
    fn st(a: &Step, b: &Step) -> bool {
        match (a, b) {
            (Step::Name(x, _), Step::Name(y, _)) => x == y,
            (Step::Filter(x), Step::Filter(y)) => ex(x, y),
            (x, y) => x == y,
        }
    }
    fn sts(a: &[Step], b: &[Step]) -> bool {
        a.len() == b.len() && a.iter().zip(b).all(|(x, y)| st(x, y))
    }
    fn op(a: &Operand, b: &Operand) -> bool {
        match (a, b) {
            (Operand::Lit(Lit::Num(x)), Operand::Lit(Lit::Num(y))) => x.same_encoding(y),
            (Operand::Lit(x), Operand::Lit(y)) => x == y,
            (Operand::Path(r, x), Operand::Path(s, y)) => r == s && sts(x, y),
            _ => false,
        }
    }
    fn ex(a: &Expr, b: &Expr) -> bool {
        match (a, b) {
            (Expr::Cmp(c, l, r), Expr::Cmp(d, m, s)) => c == d && op(l, m) && op(r, s),
            (Expr::And(l, r), Expr::And(m, s)) | (Expr::Or(l, r), Expr::Or(m, s)) => ex(l, m) && ex(r, s),
            (Expr::Exists(r, x), Expr::Exists(s, y)) => r == s && sts(x, y),
            (Expr::Arith(x), Expr::Arith(y)) => x == y,
            (Expr::ArithBin(c, l, r), Expr::ArithBin(d, m, s)) => c == d && op(l, m) && op(r, s),
            (Expr::ArithUn(c, l), Expr::ArithUn(d, m)) => c == d && op(l, m),
            _ => false,
        }
    }
    match (a, b) {
        (JPath::Steps(x), JPath::Steps(y)) => sts(x, y),
        (JPath::Predicate(x), JPath::Predicate(y)) => ex(x, y),
        _ => false,
    }
}

// ------------------------------------------------------------------ renderer

#[derive(Clone, Copy)]
pub struct RStyle {
    /// random optional spacing
    pub spacing: bool,
    /// random case for `last` / `to`
    pub kwcase: bool,
    /// names may be written quoted after `.` / `:`
    pub quoting: bool,
    /// quoted names and string literals use \uXXXX / \u{XXXX} / surrogate-pair spellings
    pub esc: bool,
}

pub const PLAIN: RStyle = RStyle { spacing: false, kwcase: false, quoting: false, esc: false };

/// quoted form with random escape spellings (same escapes as JSON strings plus `\u{XXXX}`)
pub fn quote_esc(n: &str, rng: &mut Rng) -> String {
    let mut out = Vec::new();
    let st = crate::refjson::Style { ws: 0, esc: 2, numvar: false };
    crate::refjson::write_string(n, &mut out, &st, rng);
    String::from_utf8(out).unwrap()
}

fn q(n: &str, st: &RStyle, rng: &mut Rng) -> String {
    if st.esc && rng.bool() {
        quote_esc(n, rng)
    } else {
        quote(n)
    }
}

pub fn name_is_raw_safe(n: &str) -> bool {
    // raw names end at any of these; backslash starts an escape; must be non-empty
    !n.is_empty()
        && !n.bytes().any(|c| {
            matches!(
                c,
                b' ' | b',' | b'.' | b':' | b'{' | b'}' | b'[' | b']' | b'(' | b')' | b'?' | b'@' | b'$' | b'|'
                    | b'<' | b'>' | b'!' | b'=' | b'+' | b'-' | b'*' | b'/' | b'%' | b'"' | b'\'' | b'\\'
            ) || c < 0x20
                || c == b'\t'
                || c == b'\n'
                || c == b'\r'
        })
}

/// quoted form with JSON escapes for `"` and `\` and control characters
pub fn quote(n: &str) -> String {
    let mut s = String::from("\"");
    for ch in n.chars() {
        match ch {
            '"' => s.push_str("\\\""),
            '\\' => s.push_str("\\\\"),
            '\n' => s.push_str("\\n"),
            '\r' => s.push_str("\\r"),
            '\t' => s.push_str("\\t"),
            '\u{8}' => s.push_str("\\b"),
            '\u{c}' => s.push_str("\\f"),
            c if (c as u32) < 0x20 => s.push_str(&format!("{}u{:04x}", '\\', c as u32)),
            c => s.push(c),
        }
    }
    s.push('"');
    s
}

fn sp(out: &mut String, st: &RStyle, rng: &mut Rng) {
    if st.spacing && rng.chance(1, 3) {
        let n = rng.below(2) + 1;
        for _ in 0..n {
            out.push(*rng.pick(&[' ', ' ', '\t', '\n', '\r']));
        }
    }
}

fn kw(word: &str, st: &RStyle, rng: &mut Rng) -> String {
    if !st.kwcase {
        return word.to_string();
    }
    word.chars().map(|c| if rng.bool() { c.to_ascii_uppercase() } else { c }).collect()
}

fn r_idx(i: &Idx, out: &mut String, st: &RStyle, rng: &mut Rng) {
    match i {
        Idx::I(v) => out.push_str(&v.to_string()),
        Idx::Last(0) => out.push_str(&kw("last", st, rng)),
        Idx::Last(n) => {
            out.push_str(&kw("last", st, rng));
            sp(out, st, rng);
            if *n < 0 {
                out.push('-');
                sp(out, st, rng);
                out.push_str(&(-(*n as i64)).to_string());
            } else {
                out.push('+');
                sp(out, st, rng);
                out.push_str(&n.to_string());
            }
        }
    }
}

pub fn r_lit_st(l: &Lit, out: &mut String, st: &RStyle, rng: &mut Rng) {
    match l {
        Lit::Str(s) => out.push_str(&q(s, st, rng)),
        Lit::Num(Num::F(b)) => {
            // an integer too large for 64 bits is still a number literal (it denotes the nearest double)
            let f = f64::from_bits(*b);
            if st.spacing && f.fract() == 0.0 && (f >= 18446744073709551616.0 || f < -9223372036854775808.0) && f.abs() < 1e40 && rng.bool() {
                out.push_str(&format!("{:.0}", f));
            } else {
                r_lit(l, out, rng, st.spacing)
            }
        }
        _ => r_lit(l, out, rng, st.spacing),
    }
}

pub fn r_lit(l: &Lit, out: &mut String, rng: &mut Rng, numvar: bool) {
    match l {
        Lit::Null => out.push_str("null"),
        Lit::Bool(true) => out.push_str("true"),
        Lit::Bool(false) => out.push_str("false"),
        Lit::Num(Num::I(v)) => out.push_str(&v.to_string()),
        Lit::Num(Num::U(v)) => out.push_str(&v.to_string()),
        Lit::Num(Num::F(b)) => {
            let f = f64::from_bits(*b);
            let s = if numvar && rng.chance(1, 3) { format!("{:e}", f) } else { format!("{:?}", f) };
            out.push_str(&s);
        }
        Lit::Str(s) => out.push_str(&quote(s)),
    }
}

fn r_steps(steps: &[Step], out: &mut String, st: &RStyle, rng: &mut Rng) {
    for s in steps {
        sp(out, st, rng);
        match s {
            Step::DotWild => out.push_str(".*"),
            Step::BracketWild => {
                out.push('[');
                sp(out, st, rng);
                out.push('*');
                sp(out, st, rng);
                out.push(']');
            }
            Step::Name(n, style) => {
                let raw_ok = name_is_raw_safe(n);
                match style {
                    NameStyle::Bracket => {
                        out.push('[');
                        sp(out, st, rng);
                        out.push_str(&q(n, st, rng));
                        sp(out, st, rng);
                        out.push(']');
                    }
                    NameStyle::Dot | NameStyle::Colon => {
                        out.push(if *style == NameStyle::Dot { '.' } else { ':' });
                        if !raw_ok || (st.quoting && rng.chance(1, 3)) {
                            out.push_str(&q(n, st, rng));
                        } else {
                            out.push_str(n);
                        }
                    }
                }
            }
            Step::Indices(v) => {
                out.push('[');
                for (i, a) in v.iter().enumerate() {
                    if i > 0 {
                        out.push(',');
                    }
                    sp(out, st, rng);
                    match a {
                        AIdx::One(x) => r_idx(x, out, st, rng),
                        AIdx::Range(x, y) => {
                            r_idx(x, out, st, rng);
                            // at least one space is needed around `to` after a number? `1to2` is
                            // accepted by the grammar (multispace0); keep a space unless spacing is on
                            // (any white space, or none, may stand on either side of the keyword)
                            let gap = |rng: &mut Rng| if st.spacing { *rng.pick(&["", " ", " ", "\t", "\n", "\r\n", "  "]) } else { " " };
                            out.push_str(gap(rng));
                            out.push_str(&kw("to", st, rng));
                            out.push_str(gap(rng));
                            r_idx(y, out, st, rng);
                        }
                    }
                    sp(out, st, rng);
                }
                out.push(']');
            }
            Step::Filter(e) => {
                out.push('?');
                sp(out, st, rng);
                out.push('(');
                sp(out, st, rng);
                r_expr(e, out, st, rng, 0);
                sp(out, st, rng);
                out.push(')');
            }
        }
    }
}

fn r_operand(o: &Operand, out: &mut String, st: &RStyle, rng: &mut Rng) {
    match o {
        Operand::Lit(l) => r_lit_st(l, out, st, rng),
        Operand::Path(root, steps) => {
            out.push(if *root { '$' } else { '@' });
            r_steps(steps, out, st, rng);
        }
    }
}

/// prec: 0 = or-level, 1 = and-level, 2 = atom
fn r_expr(e: &Expr, out: &mut String, st: &RStyle, rng: &mut Rng, prec: u8) {
    match e {
        Expr::Cmp(c, l, r) => {
            r_operand(l, out, st, rng);
            if st.spacing {
                sp(out, st, rng);
            } else {
                out.push(' ');
            }
            out.push_str(match c {
                Cmp::Eq => "==",
                Cmp::Ne => {
                    if st.spacing && rng.bool() {
                        "<>"
                    } else {
                        "!="
                    }
                }
                Cmp::Lt => "<",
                Cmp::Le => "<=",
                Cmp::Gt => ">",
                Cmp::Ge => ">=",
            });
            if st.spacing {
                sp(out, st, rng);
            } else {
                out.push(' ');
            }
            r_operand(r, out, st, rng);
        }
        Expr::And(l, r) => {
            let paren = prec > 1;
            if paren {
                out.push('(');
            }
            // left-assoc chain: left operand at and-level, right operand must be an atom
            r_expr(l, out, st, rng, 1);
            // `&` is a name character of the raw-name scanner, so a space must separate a raw name from `&&`
            out.push_str(if st.spacing && rng.bool() { " &&" } else { " && " });
            r_expr(r, out, st, rng, 2);
            if paren {
                out.push(')');
            }
        }
        Expr::Or(l, r) => {
            let paren = prec > 0;
            if paren {
                out.push('(');
            }
            r_expr(l, out, st, rng, 0);
            out.push_str(if st.spacing && rng.bool() { "||" } else { " || " });
            r_expr(r, out, st, rng, 1);
            if paren {
                out.push(')');
            }
        }
        Expr::Exists(root, steps) => {
            out.push_str("exists");
            sp(out, st, rng);
            out.push('(');
            sp(out, st, rng);
            out.push(if *root { '$' } else { '@' });
            r_steps(steps, out, st, rng);
            sp(out, st, rng);
            out.push(')');
        }
        Expr::Arith(s) => out.push_str(s),
        Expr::ArithBin(c, l, r) => {
            r_operand(l, out, st, rng);
            // operator characters end an unquoted name, so the spaces are optional
            if !(st.spacing && rng.bool()) {
                out.push(' ');
            }
            out.push(*c);
            if !(st.spacing && rng.bool()) {
                out.push(' ');
            }
            r_operand(r, out, st, rng);
        }
        Expr::ArithUn(c, o) => {
            out.push(*c);
            sp(out, st, rng);
            r_operand(o, out, st, rng);
        }
    }
}

pub fn render(p: &JPath, st: &RStyle, rng: &mut Rng) -> String {
    let mut out = String::new();
    sp(&mut out, st, rng);
    match p {
        JPath::Steps(steps) => {
            out.push('$');
            r_steps(steps, &mut out, st, rng);
        }
        JPath::Predicate(e) => r_expr(e, &mut out, st, rng, 0),
    }
    sp(&mut out, st, rng);
    out
}

// ------------------------------------------------------------------ evaluator

/// three-valued: Some(b) decided, None = unspecified (depends on a cross-kind comparison)
type Tri = Option<bool>;

fn kind(t: &Tree) -> u8 {
    match t {
        Tree::Null => 0,
        Tree::Bool(_) => 1,
        Tree::Num(_) => 2,
        Tree::Str(_) => 3,
        _ => 9,
    }
}

fn lit_tree(l: &Lit) -> Tree {
    match l {
        Lit::Null => Tree::Null,
        Lit::Bool(b) => Tree::Bool(*b),
        Lit::Num(n) => Tree::Num(*n),
        Lit::Str(s) => Tree::Str(s.clone()),
    }
}

fn cmp_scalar(c: Cmp, a: &Tree, b: &Tree) -> Tri {
    if kind(a) != kind(b) {
        return None;
    }
    let o = match (a, b) {
        (Tree::Null, Tree::Null) => Ordering::Equal,
        (Tree::Bool(x), Tree::Bool(y)) => x.cmp(y),
        (Tree::Num(x), Tree::Num(y)) => refnum::cmp(x, y),
        (Tree::Str(x), Tree::Str(y)) => x.as_bytes().cmp(y.as_bytes()),
        _ => unreachable!(),
    };
    Some(match c {
        Cmp::Eq => o == Ordering::Equal,
        Cmp::Ne => o != Ordering::Equal,
        Cmp::Lt => o == Ordering::Less,
        Cmp::Le => o != Ordering::Greater,
        Cmp::Gt => o == Ordering::Greater,
        Cmp::Ge => o != Ordering::Less,
    })
}

pub fn resolve_idx(i: &Idx, n: i64) -> i64 {
    match i {
        Idx::I(v) => *v as i64,
        Idx::Last(k) => n - 1 + *k as i64,
    }
}

pub struct Unspecified;

/// apply one step to one item
fn apply_step<'a>(s: &Step, item: &'a Tree, root: &'a Tree, out: &mut Vec<&'a Tree>) -> Result<(), Unspecified> {
    match s {
        Step::DotWild => {
            if let Tree::Obj(v) = item {
                out.extend(v.iter().map(|(_, x)| x));
            }
        }
        Step::BracketWild => match item {
            Tree::Arr(v) => out.extend(v.iter()),
            other => out.push(other),
        },
        Step::Name(n, _) => {
            if let Tree::Obj(v) = item {
                if let Some((_, x)) = v.iter().find(|(k, _)| k == n) {
                    out.push(x);
                }
            }
        }
        Step::Indices(ixs) => {
            if let Tree::Arr(v) = item {
                let n = v.len() as i64;
                for a in ixs {
                    match a {
                        AIdx::One(i) => {
                            let k = resolve_idx(i, n);
                            if k >= 0 && k < n {
                                out.push(&v[k as usize]);
                            }
                        }
                        AIdx::Range(s, e) => {
                            let (s, e) = (resolve_idx(s, n), resolve_idx(e, n));
                            if s > e || s >= n || e < 0 {
                                continue;
                            }
                            let (s, e) = (s.max(0), e.min(n - 1));
                            for k in s..=e {
                                out.push(&v[k as usize]);
                            }
                        }
                    }
                }
            }
        }
        Step::Filter(e) => match eval_expr(e, item, root) {
            Some(true) => out.push(item),
            Some(false) => {}
            None => return Err(Unspecified),
        },
    }
    Ok(())
}

pub fn eval_steps<'a>(steps: &[Step], start: &'a Tree, root: &'a Tree) -> Result<Vec<&'a Tree>, Unspecified> {
    let mut cur: Vec<&Tree> = vec![start];
    for s in steps {
        let mut next = Vec::new();
        for it in cur {
            apply_step(s, it, root, &mut next)?;
        }
        cur = next;
    }
    Ok(cur)
}

fn operand_values(o: &Operand, item: &Tree, root: &Tree) -> Result<Vec<Tree>, Unspecified> {
    match o {
        Operand::Lit(l) => Ok(vec![lit_tree(l)]),
        Operand::Path(from_root, steps) => {
            let start = if *from_root { root } else { item };
            let items = eval_steps(steps, start, root)?;
            Ok(items.into_iter().filter(|t| t.is_scalar()).cloned().collect())
        }
    }
}

pub fn eval_expr(e: &Expr, item: &Tree, root: &Tree) -> Tri {
    match e {
        Expr::Cmp(c, l, r) => {
            let lv = operand_values(l, item, root).ok()?;
            let rv = operand_values(r, item, root).ok()?;
            // true iff some pair satisfies; unspecified if no same-kind pair satisfies it but a
            // cross-kind pair exists
            let mut cross = false;
            for a in &lv {
                for b in &rv {
                    match cmp_scalar(*c, a, b) {
                        Some(true) => return Some(true),
                        Some(false) => {}
                        None => cross = true,
                    }
                }
            }
            if cross {
                None
            } else {
                Some(false)
            }
        }
        Expr::And(l, r) => {
            let (a, b) = (eval_expr(l, item, root), eval_expr(r, item, root));
            match (a, b) {
                (Some(false), _) | (_, Some(false)) => Some(false),
                (Some(true), Some(true)) => Some(true),
                _ => None,
            }
        }
        Expr::Or(l, r) => {
            let (a, b) = (eval_expr(l, item, root), eval_expr(r, item, root));
            match (a, b) {
                (Some(true), _) | (_, Some(true)) => Some(true),
                (Some(false), Some(false)) => Some(false),
                _ => None,
            }
        }
        Expr::Exists(from_root, steps) => {
            let start = if *from_root { root } else { item };
            match eval_steps(steps, start, root) {
                Ok(v) => Some(!v.is_empty()),
                Err(_) => None,
            }
        }
        Expr::Arith(_) | Expr::ArithBin(..) | Expr::ArithUn(..) => None,
    }
}

pub enum Outcome {
    Items(Vec<Tree>),
    Bool(bool),
    Unspecified,
}

pub fn eval(p: &JPath, root: &Tree) -> Outcome {
    match p {
        JPath::Steps(steps) => match eval_steps(steps, root, root) {
            Ok(v) => Outcome::Items(v.into_iter().cloned().collect()),
            Err(_) => Outcome::Unspecified,
        },
        JPath::Predicate(e) => match eval_expr(e, root, root) {
            Some(b) => Outcome::Bool(b),
            None => Outcome::Unspecified,
        },
    }
}

pub fn has_arith(p: &JPath) -> bool {
    fn ex(e: &Expr) -> bool {
        match e {
            Expr::Arith(_) | Expr::ArithBin(..) | Expr::ArithUn(..) => true,
            Expr::And(l, r) | Expr::Or(l, r) => ex(l) || ex(r),
            Expr::Exists(_, s) => sts(s),
            Expr::Cmp(_, l, r) => op(l) || op(r),
        }
    }
    fn op(o: &Operand) -> bool {
        matches!(o, Operand::Path(_, s) if sts(s))
    }
    fn sts(s: &[Step]) -> bool {
        s.iter().any(|x| matches!(x, Step::Filter(e) if ex(e)))
    }
    match p {
        JPath::Steps(s) => sts(s),
        JPath::Predicate(e) => ex(e),
    }
}
