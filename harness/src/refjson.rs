//! Independent JSON text recogniser/parser and writer.
//!  * `parse(bytes, Mode::Strict)`  : RFC 8259 exactly (used on rendered output, C03/C19).
//!  * `parse(bytes, Mode::Lenient)` : RFC 8259 plus exactly the relaxations listed in C02.
//! Floats are converted with Rust std's correctly rounded `f64::from_str`.

use crate::prng::Rng;
use crate::tree::{Num, Tree};

#[derive(Clone, Copy, PartialEq, Eq, Debug)]
pub enum Mode {
    Strict,
    Lenient,
}

pub struct Parsed {
    pub tree: Tree,
    /// false when the statement leaves the decoded *value* open (bracketed surrogate escapes):
    /// then only acceptance and UTF-8 validity are compared.
    pub exact: bool,
}

struct P<'a> {
    b: &'a [u8],
    i: usize,
    mode: Mode,
    exact: bool,
    depth: usize,
}

type R<T> = Result<T, String>;

impl<'a> P<'a> {
    fn err<T>(&self, m: &str) -> R<T> {
        Err(format!("{} at {}", m, self.i))
    }
    fn peek(&self) -> Option<u8> {
        self.b.get(self.i).copied()
    }
    fn ws(&mut self) {
        loop {
            match self.peek() {
                Some(b' ') | Some(b'\t') | Some(b'\n') | Some(b'\r') => self.i += 1,
                Some(0x0C) if self.mode == Mode::Lenient => self.i += 1,
                Some(b'\\') if self.mode == Mode::Lenient => {
                    let rest = &self.b[self.i + 1..];
                    if matches!(rest.first(), Some(b'n') | Some(b'r') | Some(b't')) {
                        self.i += 2;
                    } else if rest.len() >= 3 && &rest[..3] == b"x0C" {
                        self.i += 4;
                    } else {
                        return;
                    }
                }
                _ => return,
            }
        }
    }
    fn lit(&mut self, s: &[u8]) -> R<()> {
        if self.b.len() >= self.i + s.len() && &self.b[self.i..self.i + s.len()] == s {
            self.i += s.len();
            Ok(())
        } else {
            self.err("bad literal")
        }
    }
    fn value(&mut self) -> R<Tree> {
        self.ws();
        match self.peek() {
            None => self.err("eof"),
            Some(b'n') => self.lit(b"null").map(|_| Tree::Null),
            Some(b't') => self.lit(b"true").map(|_| Tree::Bool(true)),
            Some(b'f') => self.lit(b"false").map(|_| Tree::Bool(false)),
            Some(b'"') => self.string().map(Tree::Str),
            Some(b'[') => {
                self.i += 1;
                self.depth += 1;
                if self.depth > 20000 {
                    return self.err("too deep for reference parser");
                }
                let mut items = Vec::new();
                self.ws();
                if self.peek() == Some(b']') {
                    self.i += 1;
                } else {
                    loop {
                        items.push(self.value()?);
                        self.ws();
                        match self.peek() {
                            Some(b',') => self.i += 1,
                            Some(b']') => {
                                self.i += 1;
                                break;
                            }
                            _ => return self.err("expected , or ]"),
                        }
                    }
                }
                self.depth -= 1;
                Ok(Tree::Arr(items))
            }
            Some(b'{') => {
                self.i += 1;
                self.depth += 1;
                if self.depth > 20000 {
                    return self.err("too deep for reference parser");
                }
                let mut members: Vec<(String, Tree)> = Vec::new();
                self.ws();
                if self.peek() == Some(b'}') {
                    self.i += 1;
                } else {
                    loop {
                        self.ws();
                        if self.peek() != Some(b'"') {
                            return self.err("key must be a string");
                        }
                        let k = self.string()?;
                        self.ws();
                        if self.peek() != Some(b':') {
                            return self.err("expected :");
                        }
                        self.i += 1;
                        let v = self.value()?;
                        members.push((k, v));
                        self.ws();
                        match self.peek() {
                            Some(b',') => self.i += 1,
                            Some(b'}') => {
                                self.i += 1;
                                break;
                            }
                            _ => return self.err("expected , or }"),
                        }
                    }
                }
                self.depth -= 1;
                Ok(Tree::obj_from(members))
            }
            Some(b'-') | Some(b'0'..=b'9') => self.number(),
            Some(_) => self.err("unexpected byte"),
        }
    }
    fn digits(&mut self) -> usize {
        let s = self.i;
        while matches!(self.peek(), Some(b'0'..=b'9')) {
            self.i += 1;
        }
        self.i - s
    }
    fn number(&mut self) -> R<Tree> {
        let start = self.i;
        let neg = self.peek() == Some(b'-');
        if neg {
            self.i += 1;
        }
        match self.peek() {
            Some(b'0') => {
                self.i += 1;
                if matches!(self.peek(), Some(b'0'..=b'9')) {
                    return self.err("leading zero");
                }
            }
            Some(b'1'..=b'9') => {
                self.digits();
            }
            _ => return self.err("digit expected"),
        }
        let mut is_int = true;
        if self.peek() == Some(b'.') {
            is_int = false;
            self.i += 1;
            if self.digits() == 0 {
                return self.err("fraction digits expected");
            }
        }
        if matches!(self.peek(), Some(b'e') | Some(b'E')) {
            is_int = false;
            self.i += 1;
            if matches!(self.peek(), Some(b'+') | Some(b'-')) {
                self.i += 1;
            }
            if self.digits() == 0 {
                return self.err("exponent digits expected");
            }
        }
        let s = std::str::from_utf8(&self.b[start..self.i]).unwrap();
        if is_int {
            if !neg {
                if let Some(v) = parse_u64(s.as_bytes()) {
                    return Ok(Tree::Num(Num::U(v)));
                }
            } else if let Some(v) = parse_neg_i64(&s.as_bytes()[1..]) {
                return Ok(Tree::Num(Num::I(v)));
            }
        }
        let f: f64 = s.parse().map_err(|_| "std float parse failed".to_string())?;
        if !f.is_finite() && self.mode == Mode::Strict {
            // RFC 8259 allows any magnitude grammatically; a strict *consumer* that stores doubles
            // still has to pick something. Not reachable from rendered output of finite numbers.
            return Ok(Tree::Num(Num::f(f)));
        }
        Ok(Tree::Num(Num::f(f)))
    }
    fn hex4(&mut self) -> R<u32> {
        if self.i + 4 > self.b.len() {
            return self.err("short \\u");
        }
        let mut v = 0u32;
        for k in 0..4 {
            let c = self.b[self.i + k];
            let d = match c {
                b'0'..=b'9' => c - b'0',
                b'a'..=b'f' => c - b'a' + 10,
                b'A'..=b'F' => c - b'A' + 10,
                _ => return self.err("bad hex"),
            };
            v = v * 16 + d as u32;
        }
        self.i += 4;
        Ok(v)
    }
    /// at `\u` (self.i points just after the `u`): read code unit; returns (value, raw text of the
    /// four digits, bracketed?)
    fn unit(&mut self) -> R<(u32, String, bool)> {
        if self.peek() == Some(b'{') {
            if self.mode == Mode::Strict {
                return self.err("bracketed escape");
            }
            self.i += 1;
            let s = self.i;
            let v = self.hex4()?;
            let raw = String::from_utf8(self.b[s..s + 4].to_vec()).unwrap();
            if self.peek() != Some(b'}') {
                return self.err("missing }");
            }
            self.i += 1;
            Ok((v, raw, true))
        } else {
            let s = self.i;
            let v = self.hex4()?;
            let raw = String::from_utf8(self.b[s..s + 4].to_vec()).unwrap();
            Ok((v, raw, false))
        }
    }
    fn string(&mut self) -> R<String> {
        // self.peek() == '"'
        self.i += 1;
        let mut out: Vec<u8> = Vec::new();
        loop {
            let c = match self.peek() {
                None => return self.err("eof in string"),
                Some(c) => c,
            };
            match c {
                b'"' => {
                    self.i += 1;
                    break;
                }
                b'\\' => {
                    self.i += 1;
                    let e = match self.peek() {
                        None => return self.err("eof after backslash"),
                        Some(e) => e,
                    };
                    self.i += 1;
                    match e {
                        b'"' => out.push(b'"'),
                        b'\\' => out.push(b'\\'),
                        b'/' => out.push(b'/'),
                        b'b' => out.push(8),
                        b'f' => out.push(12),
                        b'n' => out.push(10),
                        b'r' => out.push(13),
                        b't' => out.push(9),
                        b'u' => {
                            let (v, raw, br) = self.unit()?;
                            if (0xD800..0xDC00).contains(&v) {
                                // high surrogate: pair only with an immediately following low escape
                                let save = self.i;
                                let mut paired = false;
                                if self.b.len() >= self.i + 2 && &self.b[self.i..self.i + 2] == b"\\u" {
                                    self.i += 2;
                                    match self.unit() {
                                        Ok((lo, _, br2)) if (0xDC00..0xE000).contains(&lo) => {
                                            let cp = 0x10000 + ((v - 0xD800) << 10) + (lo - 0xDC00);
                                            let ch = char::from_u32(cp).unwrap();
                                            let mut buf = [0u8; 4];
                                            out.extend_from_slice(ch.encode_utf8(&mut buf).as_bytes());
                                            paired = true;
                                            let _ = br2;
                                        }
                                        Ok(_) => {
                                            self.i = save;
                                        }
                                        Err(e) => {
                                            // the following escape is malformed: the whole text is rejected
                                            return Err(e);
                                        }
                                    }
                                }
                                if !paired {
                                    if self.mode == Mode::Strict {
                                        return self.err("lone high surrogate");
                                    }
                                    if br {
                                        self.exact = false;
                                    }
                                    out.extend_from_slice(b"\\u");
                                    out.extend_from_slice(raw.as_bytes());
                                }
                            } else if (0xDC00..0xE000).contains(&v) {
                                if self.mode == Mode::Strict {
                                    return self.err("lone low surrogate");
                                }
                                if br {
                                    self.exact = false;
                                }
                                out.extend_from_slice(b"\\u");
                                out.extend_from_slice(raw.as_bytes());
                            } else {
                                let ch = char::from_u32(v).unwrap();
                                let mut buf = [0u8; 4];
                                out.extend_from_slice(ch.encode_utf8(&mut buf).as_bytes());
                            }
                        }
                        _ => return self.err("bad escape"),
                    }
                }
                0..=0x1F if self.mode == Mode::Strict => {
                    return self.err("raw control character in string")
                }
                _ => {
                    out.push(c);
                    self.i += 1;
                }
            }
        }
        String::from_utf8(out).map_err(|_| format!("string is not UTF-8 (ending at {})", self.i))
    }
}

fn parse_u64(d: &[u8]) -> Option<u64> {
    let mut v: u64 = 0;
    for c in d {
        v = v.checked_mul(10)?.checked_add((c - b'0') as u64)?;
    }
    Some(v)
}
fn parse_neg_i64(d: &[u8]) -> Option<i64> {
    // magnitude digits of a negative literal
    let mut v: i128 = 0;
    for c in d {
        v = v * 10 + (c - b'0') as i128;
        if v > (1i128 << 63) {
            return None;
        }
    }
    Some((-v) as i64)
}

pub fn parse(b: &[u8], mode: Mode) -> Result<Parsed, String> {
    let mut p = P { b, i: 0, mode, exact: true, depth: 0 };
    let t = p.value()?;
    p.ws();
    if p.i != b.len() {
        return Err(format!("trailing bytes at {}", p.i));
    }
    Ok(Parsed { tree: t, exact: p.exact })
}

// ---------------------------------------------------------------------------------------------
// Writer with spelling variants

#[derive(Clone, Copy)]
pub struct Style {
    /// 0 = compact, 1 = random RFC whitespace, 2 = also the lenient whitespace forms
    pub ws: u8,
    /// 0 = minimal escapes, 1 = random mix of \uXXXX / short escapes / raw, 2 = also \u{XXXX}
    pub esc: u8,
    /// number spelling variants (exponent forms for floats)
    pub numvar: bool,
}

pub const COMPACT: Style = Style { ws: 0, esc: 0, numvar: false };

fn put_ws(out: &mut Vec<u8>, st: &Style, rng: &mut Rng) {
    if st.ws == 0 {
        return;
    }
    let n = if rng.chance(1, 2) { 0 } else { rng.below(3) + 1 };
    for _ in 0..n {
        let k = if st.ws >= 2 { rng.below(9) } else { rng.below(4) };
        match k {
            0 => out.push(b' '),
            1 => out.push(b'\t'),
            2 => out.push(b'\n'),
            3 => out.push(b'\r'),
            4 => out.push(0x0C),
            5 => out.extend_from_slice(b"\\n"),
            6 => out.extend_from_slice(b"\\r"),
            7 => out.extend_from_slice(b"\\t"),
            _ => out.extend_from_slice(b"\\x0C"),
        }
    }
}

pub fn write_string(s: &str, out: &mut Vec<u8>, st: &Style, rng: &mut Rng) {
    out.push(b'"');
    for ch in s.chars() {
        let cp = ch as u32;
        let must = ch == '"' || ch == '\\' || cp < 0x20;
        let want_escape = must || (st.esc >= 1 && rng.chance(1, 6));
        if !want_escape {
            let mut buf = [0u8; 4];
            out.extend_from_slice(ch.encode_utf8(&mut buf).as_bytes());
            continue;
        }
        // In lenient style raw control characters may stay raw.
        if cp < 0x20 && st.ws >= 2 && st.esc >= 1 && rng.chance(1, 4) {
            out.push(cp as u8);
            continue;
        }
        let short = match ch {
            '"' => Some(b'"'),
            '\\' => Some(b'\\'),
            '/' => Some(b'/'),
            '\u{8}' => Some(b'b'),
            '\u{c}' => Some(b'f'),
            '\n' => Some(b'n'),
            '\r' => Some(b'r'),
            '\t' => Some(b't'),
            _ => None,
        };
        let use_short = short.is_some() && (st.esc == 0 || rng.chance(2, 3));
        if use_short {
            out.push(b'\\');
            out.push(short.unwrap());
            continue;
        }
        let upper = st.esc >= 1 && rng.bool();
        let mut units = [0u16; 2];
        let enc = ch.encode_utf16(&mut units);
        let pair = enc.len() == 2;
        for u in enc.iter() {
            // either form for every unit, including the halves of a surrogate pair
            let bracket = st.esc >= 2 && rng.chance(1, 3);
            let _ = pair;
            let h = if upper { format!("{:04X}", u) } else { format!("{:04x}", u) };
            if bracket {
                out.extend_from_slice(format!("\\u{{{}}}", h).as_bytes());
            } else {
                out.extend_from_slice(format!("\\u{}", h).as_bytes());
            }
        }
    }
    out.push(b'"');
}

pub fn write_num(n: &Num, out: &mut Vec<u8>, st: &Style, rng: &mut Rng) {
    match n {
        // integer zero may be spelled with a sign: `-0` is the integer zero, not a float
        Num::I(0) | Num::U(0) if st.numvar && rng.chance(1, 4) => out.extend_from_slice(b"-0"),
        Num::I(v) => out.extend_from_slice(v.to_string().as_bytes()),
        Num::U(v) => out.extend_from_slice(v.to_string().as_bytes()),
        Num::F(b) => {
            let f = f64::from_bits(*b);
            assert!(f.is_finite(), "writer only spells finite numbers");
            let mut s = if st.numvar && rng.chance(1, 3) { format!("{:e}", f) } else { format!("{:?}", f) };
            if st.numvar {
                if rng.chance(1, 3) {
                    s = s.replace('e', "E");
                }
                if rng.chance(1, 4) {
                    // explicit plus on a non-negative exponent
                    if let Some(p) = s.find(|c| c == 'e' || c == 'E') {
                        if !s[p + 1..].starts_with('-') {
                            s.insert(p + 1, '+');
                        }
                    }
                }
            }
            out.extend_from_slice(s.as_bytes());
        }
    }
}

pub fn write(t: &Tree, out: &mut Vec<u8>, st: &Style, rng: &mut Rng) {
    match t {
        Tree::Null => out.extend_from_slice(b"null"),
        Tree::Bool(true) => out.extend_from_slice(b"true"),
        Tree::Bool(false) => out.extend_from_slice(b"false"),
        Tree::Num(n) => write_num(n, out, st, rng),
        Tree::Str(s) => write_string(s, out, st, rng),
        Tree::Arr(v) => {
            out.push(b'[');
            put_ws(out, st, rng);
            for (i, x) in v.iter().enumerate() {
                if i > 0 {
                    out.push(b',');
                    put_ws(out, st, rng);
                }
                write(x, out, st, rng);
                put_ws(out, st, rng);
            }
            out.push(b']');
        }
        Tree::Obj(v) => {
            out.push(b'{');
            put_ws(out, st, rng);
            for (i, (k, x)) in v.iter().enumerate() {
                if i > 0 {
                    out.push(b',');
                    put_ws(out, st, rng);
                }
                write_string(k, out, st, rng);
                put_ws(out, st, rng);
                out.push(b':');
                put_ws(out, st, rng);
                write(x, out, st, rng);
                put_ws(out, st, rng);
            }
            out.push(b'}');
        }
    }
}

/// text of a tree; leading whitespace never generated at top level unless `lead_ws`.
pub fn to_text(t: &Tree, st: &Style, rng: &mut Rng, lead_ws: bool) -> Vec<u8> {
    let mut out = Vec::new();
    if lead_ws {
        put_ws(&mut out, st, rng);
    }
    write(t, &mut out, st, rng);
    put_ws(&mut out, st, rng);
    out
}

pub fn compact(t: &Tree) -> Vec<u8> {
    let mut r = Rng::new(0);
    to_text(t, &COMPACT, &mut r, false)
}

/// Remove insignificant whitespace from a JSON text (string-aware). Input must be valid JSON.
pub fn strip_ws(text: &[u8]) -> Vec<u8> {
    let mut out = Vec::with_capacity(text.len());
    let mut in_str = false;
    let mut i = 0;
    while i < text.len() {
        let c = text[i];
        if in_str {
            out.push(c);
            if c == b'\\' && i + 1 < text.len() {
                out.push(text[i + 1]);
                i += 1;
            } else if c == b'"' {
                in_str = false;
            }
        } else if c == b'"' {
            in_str = true;
            out.push(c);
        } else if !(c == b' ' || c == b'\n' || c == b'\t' || c == b'\r') {
            out.push(c);
        }
        i += 1;
    }
    out
}

#[cfg(test)]
mod tests {
    use super::*;
    #[test]
    fn basics() {
        let p = |s: &str| parse(s.as_bytes(), Mode::Lenient).map(|p| p.tree);
        assert_eq!(p("18446744073709551615").unwrap(), Tree::Num(Num::U(u64::MAX)));
        assert_eq!(p("18446744073709551616").unwrap(), Tree::Num(Num::f(18446744073709551616.0)));
        assert_eq!(p("-9223372036854775808").unwrap(), Tree::Num(Num::I(i64::MIN)));
        assert_eq!(p("-9223372036854775809").unwrap(), Tree::Num(Num::f(-9223372036854775809.0)));
        assert_eq!(p("1e999").unwrap(), Tree::Num(Num::f(f64::INFINITY)));
        assert!(p("01").is_err());
        assert!(p("1.").is_err());
        assert!(p("\"\\uD83D\\uDC8E\"").unwrap() == Tree::Str("💎".into()));
        assert!(p("\"\\uDEAD\"").unwrap() == Tree::Str("\\uDEAD".into()));
        assert!(parse(b"\"\\uDEAD\"", Mode::Strict).is_err());
        assert!(parse(b"\"\x01\"", Mode::Strict).is_err());
        assert!(p("\"\x01\"").is_ok());
        assert!(p("{\\t\\n\\r \"d\":  5}").is_ok());
        assert!(p("{ \\x0C \"d\":  5}").is_ok());
        assert_eq!(p("{\"a\":1,\"a\":2}").unwrap(), Tree::Obj(vec![("a".into(), Tree::Num(Num::U(2)))]));
    }
}
