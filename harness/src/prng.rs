//! Deterministic PRNG (splitmix64 seeding a xoshiro256**). Every random choice in the
//! harness derives from (VERIF_SEED, property, shard).

#[derive(Clone)]
pub struct Rng {
    s: [u64; 4],
    pub draws: u64,
}

fn splitmix(x: &mut u64) -> u64 {
    *x = x.wrapping_add(0x9E3779B97F4A7C15);
    let mut z = *x;
    z = (z ^ (z >> 30)).wrapping_mul(0xBF58476D1CE4E5B9);
    z = (z ^ (z >> 27)).wrapping_mul(0x94D049BB133111EB);
    z ^ (z >> 31)
}

pub fn mix(a: u64, b: u64) -> u64 {
    let mut x = a ^ b.rotate_left(32) ^ 0xD6E8FEB86659FD93;
    let r = splitmix(&mut x);
    r ^ splitmix(&mut x)
}

pub fn hash_bytes(bytes: &[u8]) -> u64 {
    // FNV-1a 64 then a splitmix finaliser
    let mut h: u64 = 0xcbf29ce484222325;
    for b in bytes {
        h ^= *b as u64;
        h = h.wrapping_mul(0x100000001b3);
    }
    let mut x = h;
    splitmix(&mut x)
}

impl Rng {
    pub fn new(seed: u64) -> Rng {
        let mut x = seed;
        let s = [splitmix(&mut x), splitmix(&mut x), splitmix(&mut x), splitmix(&mut x)];
        Rng { s, draws: 0 }
    }
    pub fn next_u64(&mut self) -> u64 {
        self.draws += 1;
        let r = self.s[1].wrapping_mul(5).rotate_left(7).wrapping_mul(9);
        let t = self.s[1] << 17;
        self.s[2] ^= self.s[0];
        self.s[3] ^= self.s[1];
        self.s[1] ^= self.s[2];
        self.s[0] ^= self.s[3];
        self.s[2] ^= t;
        self.s[3] = self.s[3].rotate_left(45);
        r
    }
    /// uniform in 0..n (n>0)
    pub fn below(&mut self, n: usize) -> usize {
        if n <= 1 {
            return 0;
        }
        (self.next_u64() % (n as u64)) as usize
    }
    /// inclusive range
    pub fn range(&mut self, lo: i64, hi: i64) -> i64 {
        if hi <= lo {
            return lo;
        }
        let span = (hi - lo) as u64 + 1;
        lo + (self.next_u64() % span) as i64
    }
    pub fn chance(&mut self, num: u32, den: u32) -> bool {
        (self.next_u64() % den as u64) < num as u64
    }
    pub fn pick<'a, T>(&mut self, xs: &'a [T]) -> &'a T {
        let i = self.below(xs.len());
        &xs[i]
    }
    pub fn bool(&mut self) -> bool {
        self.next_u64() & 1 == 1
    }
    pub fn fork(&mut self) -> Rng {
        Rng::new(self.next_u64())
    }
}
