//! Workload generators. All deterministic functions of the Rng passed in.

use crate::prng::Rng;
use crate::refops::KP;
use crate::refpath::*;
use crate::tree::{Num, Tree};

// ------------------------------------------------------------------ scalars

pub fn int_pool() -> Vec<i128> {
    let mut v: Vec<i128> = vec![0, 1, -1, 2, 10, 100, -100];
    for p in [7u32, 8, 15, 16, 31, 32, 53, 63, 64] {
        let b: i128 = 1i128 << p;
        for d in [-2i128, -1, 0, 1, 2] {
            v.push(b + d);
            v.push(-b + d);
        }
    }
    v.push(i64::MAX as i128);
    v.push(i64::MIN as i128);
    v.push(u64::MAX as i128);
    v.retain(|x| *x >= i64::MIN as i128 && *x <= u64::MAX as i128);
    v.sort();
    v.dedup();
    v
}

pub fn float_pool() -> Vec<f64> {
    let mut v = vec![
        0.0,
        -0.0,
        1.0,
        -1.0,
        0.5,
        1.5,
        -1.5,
        0.1,
        0.3,
        1e21,
        1e-7,
        1e22,
        1e23,
        123456789.125,
        f64::MAX,
        f64::MIN,
        f64::MIN_POSITIVE,
        5e-324,
        -5e-324,
        2.2250738585072011e-308,
        9007199254740992.0,
        9007199254740994.0,
        9007199254740990.0,
        9223372036854775808.0,
        -9223372036854775808.0,
        18446744073709551616.0,
        18446744073709549568.0,
        9223372036854774784.0,
        4294967296.0,
        255.0,
        256.0,
        -128.0,
        -129.0,
        3.141592653589793,
        1e300,
        1e-300,
        1.7976931348623157e308,
    ];
    for p in [7, 8, 15, 16, 31, 32, 53, 63, 64] {
        v.push(crate::refnum::pow2(p as u32));
        v.push(-(crate::refnum::pow2(p as u32)));
    }
    v
}

/// any number, may include NaN / inf when `nonfinite`
pub fn num(rng: &mut Rng, nonfinite: bool) -> Num {
    match rng.below(12) {
        0..=2 => {
            // small ints, both encodings
            let v = rng.range(-3, 12);
            if v >= 0 && rng.bool() {
                Num::U(v as u64)
            } else {
                Num::I(v)
            }
        }
        3..=4 => {
            let pool = int_pool();
            let v = *rng.pick(&pool);
            if v > i64::MAX as i128 {
                Num::U(v as u64)
            } else if v < 0 {
                Num::I(v as i64)
            } else if rng.bool() {
                Num::U(v as u64)
            } else {
                Num::I(v as i64)
            }
        }
        5 => {
            // random width integer
            let bits = rng.below(64) as u32 + 1;
            let raw = rng.next_u64() >> (64 - bits);
            if rng.bool() {
                Num::U(raw)
            } else {
                let v = raw as i64;
                Num::I(if rng.bool() { v.wrapping_neg() } else { v })
            }
        }
        6..=7 => Num::f(*rng.pick(&float_pool())),
        8 => {
            // integral float near an int pool value
            let pool = int_pool();
            let v = *rng.pick(&pool);
            Num::f(v as f64)
        }
        9 => {
            // random finite bit pattern
            loop {
                let f = f64::from_bits(rng.next_u64());
                if f.is_finite() {
                    break Num::f(f);
                }
            }
        }
        10 => Num::f((rng.range(-2000, 2000) as f64) / 8.0),
        _ => {
            if nonfinite {
                Num::f(*rng.pick(&[f64::NAN, f64::INFINITY, f64::NEG_INFINITY, -f64::NAN]))
            } else {
                Num::U(rng.below(3) as u64)
            }
        }
    }
}

pub const KEY_POOL: &[&str] = &[
    "", "a", "A", "ab", "aB", "Ab", "AB", "b", "B", "é", "É", "k1", "K1", "k2", "abc", "a b", "a.b", "a\"b", "a\\b", "\u{0}", "\n",
    "\u{7f}", "日本", "💎", "z", "aa", "a\u{0}", "key", "Key", "KEY", "0", "1", "-1", "true", "null",
];

pub fn string(rng: &mut Rng) -> String {
    match rng.below(10) {
        0 => String::new(),
        1..=3 => (*rng.pick(KEY_POOL)).to_string(),
        4 => {
            let n = rng.below(6) + 1;
            (0..n).map(|_| (b'a' + rng.below(4) as u8) as char).collect()
        }
        5 => {
            // control characters, quotes, backslashes, DEL, U+2028
            let specials = ['"', '\\', '/', '\u{8}', '\u{c}', '\n', '\r', '\t', '\u{0}', '\u{1}', '\u{1f}', '\u{7f}', '\u{2028}', '\u{2029}', '\u{ffff}', ' '];
            let n = rng.below(5) + 1;
            (0..n).map(|_| *rng.pick(&specials)).collect()
        }
        6 => {
            // random scalar values
            let n = rng.below(5) + 1;
            (0..n).map(|_| random_char(rng)).collect()
        }
        7 => {
            // literal text that looks like escapes
            let opts = ["\\u0041", "\\uD800", "\\n", "\\u{41}", "\\\\", "\\\"", "true", "null", "123", "1e5", " ", "{}", "[]"];
            (*rng.pick(&opts)).to_string()
        }
        8 => {
            // long
            let n = rng.below(300) + 20;
            (0..n).map(|_| (b'a' + rng.below(26) as u8) as char).collect()
        }
        _ => {
            let words = ["true", "false", "TRUE", "False", "0", "1", "-5", "12.5", "1e3", "nan", "inf", "18446744073709551615", "-9223372036854775808", " 1", "1 ", "+1", "0x10"];
            (*rng.pick(&words)).to_string()
        }
    }
}

pub fn random_char(rng: &mut Rng) -> char {
    loop {
        let cp = match rng.below(6) {
            0 => rng.below(0x80) as u32,
            1 => 0x80 + rng.below(0x780) as u32,
            2 => 0x800 + rng.below(0xF800) as u32,
            3 => 0x10000 + rng.below(0x100000) as u32,
            4 => rng.below(0x20) as u32,
            _ => *rng.pick(&[0x7f, 0x80, 0x7ff, 0x800, 0xd7ff, 0xe000, 0xfffd, 0xffff, 0x10000, 0x10ffff, 0x2028, 0x2029, 0x22, 0x5c, 0x1f3ff, 0x103ff, 0x1f400, 0x1fbff]),
        };
        if let Some(c) = char::from_u32(cp) {
            return c;
        }
    }
}

pub fn key(rng: &mut Rng) -> String {
    if rng.chance(3, 4) {
        (*rng.pick(KEY_POOL)).to_string()
    } else {
        string(rng)
    }
}

pub fn scalar(rng: &mut Rng, nonfinite: bool) -> Tree {
    match rng.below(10) {
        0 => Tree::Null,
        1 => Tree::Bool(true),
        2 => Tree::Bool(false),
        3..=5 => Tree::Num(num(rng, nonfinite)),
        _ => Tree::Str(string(rng)),
    }
}

#[derive(Clone, Copy)]
pub struct DocCfg {
    pub max_depth: usize,
    pub max_fan: usize,
    pub nonfinite: bool,
    /// probability (out of 10) that a child slot is a container while depth remains
    pub container_p: u32,
}

pub const DOC_DEFAULT: DocCfg = DocCfg { max_depth: 5, max_fan: 5, nonfinite: true, container_p: 4 };
pub const DOC_FINITE: DocCfg = DocCfg { max_depth: 5, max_fan: 5, nonfinite: false, container_p: 4 };
pub const DOC_SMALL: DocCfg = DocCfg { max_depth: 3, max_fan: 3, nonfinite: true, container_p: 3 };

pub fn doc(rng: &mut Rng, cfg: &DocCfg) -> Tree {
    let k = rng_top_kind(rng);
    doc_at(rng, cfg, 0, k)
}

fn rng_top_kind(rng: &mut Rng) -> u8 {
    // 0 scalar, 1 array, 2 object
    match rng.below(10) {
        0..=1 => 0,
        2..=5 => 1,
        _ => 2,
    }
}

fn doc_at(rng: &mut Rng, cfg: &DocCfg, depth: usize, kind: u8) -> Tree {
    match kind {
        0 => scalar(rng, cfg.nonfinite),
        1 => {
            let n = fan(rng, cfg);
            let mut v = Vec::with_capacity(n);
            for _ in 0..n {
                v.push(child(rng, cfg, depth + 1));
            }
            // duplication pressure: sometimes repeat an earlier element
            if n > 0 && rng.chance(1, 5) {
                let d = v[rng.below(n)].clone();
                v.push(d);
            }
            Tree::Arr(v)
        }
        _ => {
            let n = fan(rng, cfg);
            let mut v = Vec::with_capacity(n);
            for _ in 0..n {
                v.push((key(rng), child(rng, cfg, depth + 1)));
            }
            Tree::obj_from(v)
        }
    }
}

fn fan(rng: &mut Rng, cfg: &DocCfg) -> usize {
    match rng.below(8) {
        0 => 0,
        1 => 1,
        _ => rng.below(cfg.max_fan + 1),
    }
}

fn child(rng: &mut Rng, cfg: &DocCfg, depth: usize) -> Tree {
    if depth < cfg.max_depth && rng.chance(cfg.container_p, 10) {
        let k = if rng.bool() { 1 } else { 2 };
        doc_at(rng, cfg, depth, k)
    } else {
        scalar(rng, cfg.nonfinite)
    }
}

/// Chain of nested single-child containers to a given depth (iterative construction).
pub fn deep(depth: usize, shape: u8, leaf: Tree) -> Tree {
    let mut t = leaf;
    for i in 0..depth {
        let arr = match shape {
            0 => true,
            1 => false,
            _ => i % 2 == 0,
        };
        t = if arr { Tree::Arr(vec![t]) } else { Tree::Obj(vec![("a".to_string(), t)]) };
    }
    t
}

// ------------------------------------------------------------------ small-scope enumeration

pub fn small_scalars() -> Vec<Tree> {
    vec![
        Tree::Null,
        Tree::Bool(true),
        Tree::Bool(false),
        Tree::Num(Num::U(1)),
        Tree::Num(Num::f(1.0)),
        Tree::Num(Num::I(-1)),
        Tree::Str("".into()),
        Tree::Str("a".into()),
    ]
}

/// all documents with at most `max_nodes` nodes over the small alphabet (keys a, b, "")
pub fn enumerate_small(max_nodes: usize) -> Vec<Tree> {
    // by_size[n] = all trees with exactly n nodes
    let keys = ["a", "b", ""];
    let scal = small_scalars();
    let mut by_size: Vec<Vec<Tree>> = vec![vec![], scal.clone()];
    for n in 2..=max_nodes {
        let mut out = Vec::new();
        // sequences of children with total n-1 nodes
        let seqs = child_seqs(&by_size, n - 1, 3);
        for s in &seqs {
            out.push(Tree::Arr(s.clone()));
            // objects: assign distinct keys in sorted order choices
            let k = s.len();
            if k <= keys.len() {
                for combo in key_combos(&keys, k) {
                    let members: Vec<(String, Tree)> = combo.iter().map(|x| x.to_string()).zip(s.iter().cloned()).collect();
                    out.push(Tree::obj_from(members));
                }
            }
        }
        by_size.push(out);
    }
    // size 1 containers: empty array / object
    let mut all: Vec<Tree> = vec![Tree::Arr(vec![]), Tree::Obj(vec![])];
    for v in by_size.into_iter() {
        all.extend(v);
    }
    all
}

fn child_seqs(by_size: &Vec<Vec<Tree>>, total: usize, max_len: usize) -> Vec<Vec<Tree>> {
    let mut out = Vec::new();
    fn rec(by_size: &Vec<Vec<Tree>>, left: usize, max_len: usize, cur: &mut Vec<Tree>, out: &mut Vec<Vec<Tree>>) {
        if left == 0 {
            out.push(cur.clone());
            return;
        }
        if cur.len() == max_len {
            return;
        }
        for sz in 1..=left {
            if sz >= by_size.len() {
                break;
            }
            // containers of size 1 (empty) are not in by_size[1]; add them explicitly
            let mut cands: Vec<Tree> = by_size[sz].clone();
            if sz == 1 {
                cands.push(Tree::Arr(vec![]));
                cands.push(Tree::Obj(vec![]));
            }
            for c in cands {
                cur.push(c);
                rec(by_size, left - sz, max_len, cur, out);
                cur.pop();
            }
        }
    }
    rec(by_size, total, max_len, &mut Vec::new(), &mut out);
    out
}

fn key_combos<'a>(keys: &[&'a str], k: usize) -> Vec<Vec<&'a str>> {
    // k-subsets in sorted (byte) order
    let mut sorted: Vec<&str> = keys.to_vec();
    sorted.sort();
    let mut out = Vec::new();
    let n = sorted.len();
    for mask in 0u32..(1 << n) {
        if mask.count_ones() as usize == k {
            out.push((0..n).filter(|i| mask & (1 << i) != 0).map(|i| sorted[i]).collect());
        }
    }
    out
}

// ------------------------------------------------------------------ derived relatives

/// produce a relative of `t`: same document with one local change
pub fn derive(t: &Tree, rng: &mut Rng) -> Tree {
    let mut t = t.clone();
    mutate(&mut t, rng, 0);
    t
}

fn retype(n: &Num, rng: &mut Rng) -> Num {
    match n {
        Num::U(v) => {
            if *v <= i64::MAX as u64 && rng.bool() {
                Num::I(*v as i64)
            } else {
                Num::f(*v as f64)
            }
        }
        Num::I(v) => {
            if *v >= 0 && rng.bool() {
                Num::U(*v as u64)
            } else {
                Num::f(*v as f64)
            }
        }
        Num::F(b) => {
            let f = f64::from_bits(*b);
            if f.is_finite() && f.fract() == 0.0 && f.abs() < 1.8e19 {
                if f >= 0.0 {
                    Num::U(f as u64)
                } else if f >= -9.2e18 {
                    Num::I(f as i64)
                } else {
                    Num::f(-f)
                }
            } else if f == 0.0 {
                Num::f(-f)
            } else if f64::from_bits(b.wrapping_add(1)).is_finite() {
                Num::F(b.wrapping_add(1))
            } else {
                Num::F(*b)
            }
        }
    }
}

fn mutate(t: &mut Tree, rng: &mut Rng, depth: usize) {
    // descend with probability, else change here
    match t {
        Tree::Arr(v) if !v.is_empty() && rng.chance(2, 3) => {
            let i = rng.below(v.len());
            mutate(&mut v[i], rng, depth + 1);
            return;
        }
        Tree::Obj(v) if !v.is_empty() && rng.chance(2, 3) => {
            let i = rng.below(v.len());
            mutate(&mut v[i].1, rng, depth + 1);
            return;
        }
        _ => {}
    }
    match t {
        Tree::Arr(v) => match rng.below(6) {
            0 if !v.is_empty() => {
                let i = rng.below(v.len());
                v.remove(i);
            }
            1 if !v.is_empty() => {
                let i = rng.below(v.len());
                let d = v[i].clone();
                v.push(d);
            }
            2 if v.len() > 1 => {
                let i = rng.below(v.len());
                let j = rng.below(v.len());
                v.swap(i, j);
            }
            3 => v.push(scalar(rng, false)),
            4 => {
                let inner = std::mem::replace(t, Tree::Null);
                *t = Tree::Arr(vec![inner]);
            }
            _ => {
                if v.len() == 1 {
                    let inner = v.pop().unwrap();
                    *t = inner;
                } else {
                    v.insert(0, scalar(rng, false));
                }
            }
        },
        Tree::Obj(v) => match rng.below(5) {
            0 if !v.is_empty() => {
                let i = rng.below(v.len());
                v.remove(i);
            }
            1 => {
                let mut all = std::mem::take(v);
                all.push((key(rng), scalar(rng, false)));
                *t = Tree::obj_from(all);
            }
            2 if !v.is_empty() => {
                // change a key slightly
                let i = rng.below(v.len());
                let mut all = std::mem::take(v);
                let mut k = all[i].0.clone();
                if rng.bool() {
                    k.push('a');
                } else {
                    k = k.to_ascii_uppercase();
                }
                all[i].0 = k;
                *t = Tree::obj_from(all);
            }
            3 => {
                let inner = std::mem::replace(t, Tree::Null);
                *t = Tree::Arr(vec![inner]);
            }
            _ => {
                let inner = std::mem::replace(t, Tree::Null);
                *t = Tree::Obj(vec![("a".into(), inner)]);
            }
        },
        Tree::Num(n) => {
            *n = match rng.below(4) {
                0 | 1 => retype(n, rng),
                2 => match n {
                    Num::U(v) => Num::U(v.wrapping_add(1)),
                    Num::I(v) => Num::I(v.wrapping_sub(1)),
                    Num::F(b) => Num::F(if f64::from_bits(b.wrapping_add(1)).is_finite() { b.wrapping_add(1) } else { *b }),
                },
                _ => num(rng, false),
            }
        }
        Tree::Str(s) => match rng.below(4) {
            0 => s.push('a'),
            1 => {
                s.pop();
            }
            2 => s.push('\u{0}'),
            _ => *s = string(rng),
        },
        Tree::Bool(b) => *b = !*b,
        Tree::Null => *t = scalar(rng, false),
    }
}

// ------------------------------------------------------------------ key paths

pub fn keypath_for(t: &Tree, rng: &mut Rng) -> Vec<KP> {
    let mut out = Vec::new();
    let mut cur = t;
    let steps = rng.below(5);
    for _ in 0..steps {
        match cur {
            Tree::Arr(v) => {
                let n = v.len() as i32;
                let i = if rng.chance(4, 5) && n > 0 {
                    let i = rng.below(v.len()) as i32;
                    if rng.bool() {
                        i
                    } else {
                        i - n
                    }
                } else {
                    *rng.pick(&[n, n + 1, -n - 1, -n - 2, i32::MAX, i32::MIN + 1, 0, -1])
                };
                out.push(KP::Index(i));
                match crate::refops::resolve_index(v.len(), i) {
                    Some(k) => cur = &v[k],
                    None => break,
                }
            }
            Tree::Obj(v) if rng.chance(1, 10) => {
                // an index where a name is due (also one that spells an existing digit key)
                let i = v.iter().filter_map(|(k, _)| k.parse::<i32>().ok()).next().unwrap_or(rng.range(-2, 3) as i32);
                out.push(KP::Index(i));
                break;
            }
            Tree::Obj(v) => {
                let (name, next) = if rng.chance(4, 5) && !v.is_empty() {
                    let (k, x) = &v[rng.below(v.len())];
                    (k.clone(), Some(x))
                } else {
                    (key(rng), None)
                };
                let next = next.or_else(|| v.iter().find(|(k, _)| *k == name).map(|(_, x)| x));
                out.push(if rng.bool() { KP::Name(name) } else { KP::Quoted(name) });
                match next {
                    Some(x) => cur = x,
                    None => break,
                }
            }
            _ => {
                // step past a scalar
                if rng.bool() {
                    out.push(KP::Index(0));
                } else {
                    out.push(KP::Name("a".into()));
                }
                break;
            }
        }
    }
    // occasionally a kind-mismatched step
    if rng.chance(1, 10) {
        out.push(if rng.bool() { KP::Index(0) } else { KP::Name("a".into()) });
    }
    out
}

// ------------------------------------------------------------------ JSONPath ASTs

pub struct PathCfg {
    pub max_steps: usize,
    pub filters: bool,
    pub big_indices: bool,
}

fn names_of(t: &Tree, out: &mut Vec<String>) {
    match t {
        Tree::Obj(v) => {
            for (k, x) in v {
                out.push(k.clone());
                names_of(x, out);
            }
        }
        Tree::Arr(v) => v.iter().for_each(|x| names_of(x, out)),
        _ => {}
    }
}

fn scalars_of(t: &Tree, out: &mut Vec<Tree>) {
    match t {
        Tree::Obj(v) => v.iter().for_each(|(_, x)| scalars_of(x, out)),
        Tree::Arr(v) => v.iter().for_each(|x| scalars_of(x, out)),
        x => out.push(x.clone()),
    }
}

pub struct PathGen {
    names: Vec<String>,
    scalars: Vec<Tree>,
}

impl PathGen {
    pub fn new(doc: &Tree) -> PathGen {
        let mut names = Vec::new();
        names_of(doc, &mut names);
        names.sort();
        names.dedup();
        let mut scalars = Vec::new();
        scalars_of(doc, &mut scalars);
        scalars.truncate(64);
        PathGen { names, scalars }
    }

    fn name(&self, rng: &mut Rng) -> String {
        if !self.names.is_empty() && rng.chance(7, 10) {
            rng.pick(&self.names).clone()
        } else {
            key(rng)
        }
    }

    fn idx(&self, rng: &mut Rng, cfg: &PathCfg) -> Idx {
        match rng.below(10) {
            0..=4 => Idx::I(rng.range(0, 4) as i32),
            5 => Idx::I(rng.range(-2, 7) as i32),
            6 => Idx::Last(0),
            7 => Idx::Last(-(rng.range(0, 3) as i32)),
            8 => Idx::Last(rng.range(-4, 2) as i32),
            _ => {
                if cfg.big_indices {
                    rng.pick(&[Idx::I(i32::MAX), Idx::I(i32::MIN + 1), Idx::Last(i32::MAX), Idx::Last(-i32::MAX), Idx::I(1 << 20)]).clone()
                } else {
                    Idx::I(rng.range(0, 2) as i32)
                }
            }
        }
    }

    pub fn step(&self, rng: &mut Rng, cfg: &PathCfg, allow_filter: bool, depth: usize) -> Step {
        match rng.below(12) {
            0 => Step::DotWild,
            1..=2 => Step::BracketWild,
            3..=6 => {
                let st = match rng.below(3) {
                    0 => NameStyle::Dot,
                    1 => NameStyle::Colon,
                    _ => NameStyle::Bracket,
                };
                Step::Name(self.name(rng), st)
            }
            7..=9 => {
                let n = if rng.chance(2, 3) { 1 } else { rng.below(3) + 1 };
                let mut v = Vec::new();
                for _ in 0..n {
                    if rng.chance(1, 3) {
                        v.push(AIdx::Range(self.idx(rng, cfg), self.idx(rng, cfg)));
                    } else {
                        v.push(AIdx::One(self.idx(rng, cfg)));
                    }
                }
                Step::Indices(v)
            }
            _ => {
                if allow_filter && cfg.filters && depth < 2 {
                    Step::Filter(Box::new(self.expr(rng, cfg, false, depth + 1, 2)))
                } else {
                    Step::BracketWild
                }
            }
        }
    }

    pub fn steps(&self, rng: &mut Rng, cfg: &PathCfg, allow_filter: bool, depth: usize) -> Vec<Step> {
        let n = rng.below(cfg.max_steps + 1);
        (0..n).map(|_| self.step(rng, cfg, allow_filter, depth)).collect()
    }

    pub fn lit(&self, rng: &mut Rng) -> Lit {
        if !self.scalars.is_empty() && rng.chance(3, 5) {
            match rng.pick(&self.scalars) {
                Tree::Null => Lit::Null,
                Tree::Bool(b) => Lit::Bool(*b),
                Tree::Num(n) if n.is_finite() => Lit::Num(lit_num(n)),
                Tree::Str(s) => Lit::Str(s.clone()),
                _ => Lit::Null,
            }
        } else {
            match rng.below(9) {
                0 => Lit::Null,
                1 => Lit::Bool(rng.bool()),
                8 => Lit::Num(Num::f(*rng.pick(&[18446744073709551616.0, 1e20, -9223372036854775809.0, 36893488147419103232.0, -1e25]))),
                2..=4 => {
                    let n = num(rng, false);
                    Lit::Num(lit_num(&n))
                }
                _ => Lit::Str(string(rng)),
            }
        }
    }

    fn operand(&self, rng: &mut Rng, cfg: &PathCfg, predicate: bool, depth: usize) -> Operand {
        if rng.chance(1, 2) {
            Operand::Lit(self.lit(rng))
        } else {
            let from_root = predicate || rng.chance(1, 5);
            let c = PathCfg { max_steps: 3, filters: false, big_indices: cfg.big_indices };
            Operand::Path(from_root, self.steps(rng, &c, false, depth))
        }
    }

    pub fn expr(&self, rng: &mut Rng, cfg: &PathCfg, predicate: bool, depth: usize, budget: usize) -> Expr {
        match rng.below(10) {
            0 if budget > 0 => Expr::And(
                Box::new(self.expr(rng, cfg, predicate, depth, budget - 1)),
                Box::new(self.expr(rng, cfg, predicate, depth, budget - 1)),
            ),
            1 if budget > 0 => Expr::Or(
                Box::new(self.expr(rng, cfg, predicate, depth, budget - 1)),
                Box::new(self.expr(rng, cfg, predicate, depth, budget - 1)),
            ),
            2 => {
                let from_root = predicate || rng.chance(1, 4);
                let c = PathCfg { max_steps: 3, filters: cfg.filters && depth < 2, big_indices: cfg.big_indices };
                Expr::Exists(from_root, self.steps(rng, &c, true, depth + 1))
            }
            _ => {
                let c = *rng.pick(&[Cmp::Eq, Cmp::Eq, Cmp::Ne, Cmp::Lt, Cmp::Le, Cmp::Gt, Cmp::Ge]);
                let mut l = self.operand(rng, cfg, predicate, depth);
                let mut r = self.operand(rng, cfg, predicate, depth);
                // most comparisons have a path on at least one side
                if matches!((&l, &r), (Operand::Lit(_), Operand::Lit(_))) && rng.chance(4, 5) {
                    let cc = PathCfg { max_steps: 2, filters: false, big_indices: false };
                    let p = Operand::Path(predicate, self.steps(rng, &cc, false, depth));
                    if rng.bool() {
                        l = p
                    } else {
                        r = p
                    }
                }
                Expr::Cmp(c, l, r)
            }
        }
    }

    pub fn path(&self, rng: &mut Rng, cfg: &PathCfg) -> JPath {
        if cfg.filters && rng.chance(1, 6) {
            JPath::Predicate(self.expr(rng, cfg, true, 1, 2))
        } else {
            JPath::Steps(self.steps(rng, cfg, true, 0))
        }
    }
}

/// literal numbers as the path grammar classifies them: non-negative integers are UInt64,
/// negative integers Int64; anything else a finite double
fn lit_num(n: &Num) -> Num {
    match n {
        Num::I(v) if *v >= 0 => Num::U(*v as u64),
        x => *x,
    }
}

// ------------------------------------------------------------------ document-guided paths

impl PathGen {
    /// a step that applies to at least one item of the frontier (with high probability)
    fn guided_step(&self, rng: &mut Rng, cfg: &PathCfg, frontier: &[&Tree], root: &Tree, depth: usize) -> Step {
        if frontier.is_empty() || rng.chance(1, 10) {
            return self.step(rng, cfg, true, depth);
        }
        let item = *rng.pick(frontier);
        match item {
            Tree::Obj(v) if !v.is_empty() => match rng.below(8) {
                0 => Step::DotWild,
                1 if cfg.filters && depth < 2 => Step::Filter(Box::new(self.guided_expr(rng, cfg, item, root, false, depth + 1, 1))),
                _ => {
                    let st = match rng.below(3) {
                        0 => NameStyle::Dot,
                        1 => NameStyle::Colon,
                        _ => NameStyle::Bracket,
                    };
                    Step::Name(v[rng.below(v.len())].0.clone(), st)
                }
            },
            Tree::Arr(v) if !v.is_empty() => {
                let n = v.len() as i32;
                match rng.below(8) {
                    0 | 1 => Step::BracketWild,
                    2 if cfg.filters && depth < 2 => Step::Filter(Box::new(self.guided_expr(rng, cfg, item, root, false, depth + 1, 1))),
                    3 => Step::Indices(vec![AIdx::Range(Idx::I(rng.below(v.len()) as i32), Idx::Last(-(rng.below(2) as i32)))]),
                    4 => Step::Indices(vec![AIdx::One(Idx::Last(-(rng.below(v.len()) as i32)))]),
                    5 => {
                        let k = rng.below(3) + 1;
                        Step::Indices((0..k).map(|_| AIdx::One(Idx::I(rng.range(0, n as i64) as i32))).collect())
                    }
                    6 => Step::Indices(vec![AIdx::Range(Idx::I(rng.range(-1, n as i64) as i32), Idx::I(rng.range(0, n as i64 + 1) as i32)), AIdx::One(Idx::I(0))]),
                    _ => Step::Indices(vec![AIdx::One(Idx::I(rng.below(v.len()) as i32))]),
                }
            }
            _ => match rng.below(4) {
                0 => Step::BracketWild,
                1 | 2 if cfg.filters && depth < 2 => Step::Filter(Box::new(self.guided_expr(rng, cfg, item, root, false, depth + 1, 1))),
                _ => self.step(rng, cfg, true, depth),
            },
        }
    }

    fn lit_near(&self, rng: &mut Rng, t: &Tree) -> Lit {
        // a literal equal or close to a scalar of the document (same kind, so the comparison is specified)
        match t {
            Tree::Null => Lit::Null,
            Tree::Bool(b) => Lit::Bool(if rng.chance(3, 4) { *b } else { !*b }),
            Tree::Num(n) if n.is_finite() => {
                let m = match rng.below(4) {
                    0 | 1 => *n,
                    2 => match n {
                        Num::U(v) => Num::U(v.wrapping_add(1)),
                        Num::I(v) => Num::I(v.wrapping_sub(1)),
                        Num::F(b) => Num::f(f64::from_bits(*b) + 0.5),
                    },
                    _ => match n {
                        Num::U(v) if *v < (1 << 53) => Num::f(*v as f64),
                        Num::I(v) if v.unsigned_abs() < (1 << 53) => Num::f(*v as f64),
                        x => *x,
                    },
                };
                Lit::Num(lit_num(&if m.is_finite() { m } else { *n }))
            }
            Tree::Str(s) => {
                if rng.chance(3, 4) {
                    Lit::Str(s.clone())
                } else {
                    Lit::Str(format!("{}a", s))
                }
            }
            _ => self.lit(rng),
        }
    }

    /// expression evaluated with `@` bound to `item`, built from values actually reachable
    pub fn guided_expr(&self, rng: &mut Rng, cfg: &PathCfg, item: &Tree, root: &Tree, predicate: bool, depth: usize, budget: usize) -> Expr {
        if budget > 0 && rng.chance(1, 4) {
            let l = self.guided_expr(rng, cfg, item, root, predicate, depth, budget - 1);
            let r = self.guided_expr(rng, cfg, item, root, predicate, depth, budget - 1);
            return if rng.bool() { Expr::And(Box::new(l), Box::new(r)) } else { Expr::Or(Box::new(l), Box::new(r)) };
        }
        let from_root = predicate || rng.chance(1, 8);
        let start = if from_root { root } else { item };
        // walk a few guided steps (no filters) to reach scalars
        let c = PathCfg { max_steps: 3, filters: false, big_indices: false };
        let mut steps: Vec<Step> = Vec::new();
        let mut cur: Vec<&Tree> = vec![start];
        for _ in 0..rng.below(3) {
            if cur.iter().all(|t| t.is_scalar()) {
                break;
            }
            let s = self.guided_step(rng, &c, &cur, root, 3);
            if let Ok(next) = crate::refpath::eval_steps(std::slice::from_ref(&s), cur[0], root) {
                let mut all: Vec<&Tree> = Vec::new();
                for it in &cur {
                    if let Ok(v) = crate::refpath::eval_steps(std::slice::from_ref(&s), it, root) {
                        all.extend(v);
                    }
                }
                let _ = next;
                cur = all;
            }
            steps.push(s);
        }
        if rng.chance(1, 6) {
            return Expr::Exists(from_root, steps);
        }
        let scalars: Vec<&Tree> = cur.iter().filter(|t| t.is_scalar()).cloned().collect();
        let lit = if scalars.is_empty() {
            self.lit(rng)
        } else {
            let pick = rng_pick_ref(rng, &scalars);
            self.lit_near(rng, pick)
        };
        let cmp = *rng.pick(&[Cmp::Eq, Cmp::Eq, Cmp::Ne, Cmp::Lt, Cmp::Le, Cmp::Gt, Cmp::Ge]);
        let p = Operand::Path(from_root, steps);
        if rng.chance(1, 5) {
            Expr::Cmp(cmp, Operand::Lit(lit), p)
        } else {
            Expr::Cmp(cmp, p, Operand::Lit(lit))
        }
    }

    pub fn guided_path(&self, rng: &mut Rng, cfg: &PathCfg, root: &Tree) -> JPath {
        if cfg.filters && rng.chance(1, 6) {
            return JPath::Predicate(self.guided_expr(rng, cfg, root, root, true, 1, 2));
        }
        let n = rng.below(cfg.max_steps + 1);
        let mut steps: Vec<Step> = Vec::new();
        let mut cur: Vec<&Tree> = vec![root];
        for _ in 0..n {
            let s = self.guided_step(rng, cfg, &cur, root, 0);
            let mut all: Vec<&Tree> = Vec::new();
            for it in &cur {
                if let Ok(v) = crate::refpath::eval_steps(std::slice::from_ref(&s), it, root) {
                    all.extend(v);
                }
            }
            cur = all;
            steps.push(s);
        }
        JPath::Steps(steps)
    }
}

fn rng_pick_ref<'a>(rng: &mut Rng, v: &[&'a Tree]) -> &'a Tree {
    v[rng.below(v.len())]
}

// ------------------------------------------------------------------ large shapes (length boundaries)

/// a payload beyond 2^24 bytes between siblings (thorough tier only: 16 MiB per copy)
pub fn huge_payload_doc() -> Tree {
    let s: String = std::iter::repeat("0123456789abcdef").take((1 << 20) + 1).collect();
    Tree::Arr(vec![
        Tree::Num(Num::U(1)),
        Tree::Str(s.clone()),
        Tree::Obj(vec![("k".into(), Tree::Str("after".into())), ("z".into(), Tree::Null)]),
        Tree::Arr(vec![Tree::Str(s), Tree::Bool(true)]),
    ])
}

/// two objects whose sorted keys concatenate to the same bytes but are cut at different places
/// (`{"a":..,"bc":..}` and `{"ab":..,"c":..}`), with related values
pub fn resplit_objects(rng: &mut Rng) -> (Tree, Tree) {
    let n = 2 + rng.below(3);
    // strictly increasing letters keep any cut sorted and unique
    let letters: Vec<char> = (0..(n * 2 + rng.below(3))).map(|k| (b'a' + k as u8) as char).collect();
    let cut = |rng: &mut Rng| -> Vec<String> {
        // choose n-1 cut points
        let mut pts: Vec<usize> = Vec::new();
        while pts.len() < n - 1 {
            let p = 1 + rng.below(letters.len() - 1);
            if !pts.contains(&p) {
                pts.push(p);
            }
        }
        pts.sort();
        let mut out = Vec::new();
        let mut prev = 0;
        for p in pts.into_iter().chain(std::iter::once(letters.len())) {
            out.push(letters[prev..p].iter().collect::<String>());
            prev = p;
        }
        out
    };
    let (k1, k2) = (cut(rng), cut(rng));
    let vals: Vec<Tree> = (0..n).map(|_| scalar(rng, false)).collect();
    let o1 = Tree::obj_from(k1.into_iter().zip(vals.iter().cloned()).collect());
    let vals2: Vec<Tree> = vals.iter().map(|v| if rng.chance(1, 3) { derive(v, rng) } else { v.clone() }).collect();
    let o2 = Tree::obj_from(k2.into_iter().zip(vals2.into_iter()).collect());
    (o1, o2)
}

/// wide rather than deep: 33..400 small containers or scalars side by side (more members than
/// small-size shortcuts of sorts and scans cover, more containers than a nesting budget that counts
/// siblings would allow)
pub fn wide_doc(rng: &mut Rng) -> Tree {
    let rows = *rng.pick(&[33usize, 40, 65, 66, 100, 129, 130, 257, 300, 400]);
    let row = |rng: &mut Rng, k: usize| match rng.below(4) {
        0 => Tree::Arr(vec![scalar(rng, false)]),
        1 => Tree::Obj(vec![("k".into(), scalar(rng, false))]),
        2 => Tree::Num(num(rng, false)),
        _ => Tree::Obj(vec![("id".into(), Tree::Num(Num::U(k as u64))), ("v".into(), scalar(rng, false))]),
    };
    if rng.bool() {
        Tree::Arr((0..rows).map(|k| row(rng, k)).collect())
    } else {
        Tree::obj_from((0..rows).map(|k| (format!("k{:03}", k), row(rng, k))).collect())
    }
}

/// documents whose element counts / payload lengths cross 2^8 and 2^16, so that a narrowing cast
/// or a one-byte length somewhere in a walker becomes visible
pub fn big_doc(rng: &mut Rng, huge: bool) -> Tree {
    // mostly around 2^8; one in five around 2^12 (pre-allocation caps, block sizes)
    let n_small = if rng.chance(1, 5) { *rng.pick(&[4_095usize, 4_096, 4_097, 5_000]) } else { *rng.pick(&[255usize, 256, 257, 300]) };
    let n = if huge && rng.chance(1, 4) { *rng.pick(&[65_535usize, 65_536, 65_540]) } else { n_small };
    match rng.below(6) {
        0 => Tree::Arr((0..n).map(|i| if i % 7 == 0 { Tree::Str(format!("s{}", i)) } else { Tree::Num(Num::U(i as u64)) }).collect()),
        1 => Tree::obj_from((0..n.min(70_000)).map(|i| (format!("k{:06}", i), if i % 5 == 0 { Tree::Null } else { Tree::Num(Num::I(-(i as i64))) })).collect()),
        2 => {
            // a payload beyond 64 KiB is cheap to handle: always allowed
            let n = if rng.chance(1, 2) { *rng.pick(&[65_535usize, 65_536, 70_000]) } else { n };
            let s: String = (0..n).map(|i| (b'a' + (i % 26) as u8) as char).collect();
            Tree::Arr(vec![Tree::Bool(true), Tree::Str(s), Tree::Num(Num::U(7)), Tree::Arr(vec![Tree::Null])])
        }
        3 => {
            let k: String = (0..n_small).map(|i| (b'A' + (i % 26) as u8) as char).collect();
            Tree::obj_from(vec![("a".into(), Tree::Num(Num::U(1))), (k, Tree::Arr(vec![Tree::Num(Num::U(2)), Tree::Str("x".into())])), ("z".into(), Tree::Bool(false))])
        }
        4 => {
            // big nested container (sometimes beyond 64 KiB of payload) in the middle of siblings
            let pad: String = if rng.chance(1, 2) { std::iter::repeat('p').take(260).collect() } else { String::new() };
            let inner = Tree::Arr((0..n_small).map(|i| if pad.is_empty() { Tree::Num(Num::U(i as u64 * 1000)) } else { Tree::Str(format!("{}{}", pad, i)) }).collect());
            Tree::obj_from(vec![("a".into(), Tree::Str("before".into())), ("b".into(), inner), ("c".into(), Tree::Str("after".into()))])
        }
        _ => {
            let s: String = std::iter::repeat('é').take(n_small).collect();
            Tree::Arr(vec![Tree::Str(s.clone()), Tree::Obj(vec![(s, Tree::Num(Num::f(1.5)))]), Tree::Null])
        }
    }
}
