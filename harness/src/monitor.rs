//! Per-shard observation context: event counters, distinct-case set, samples, witnesses, and the
//! cross-cutting monitors (panic, UTF-8, canonical form, append-only).

use crate::prng::Rng;
use crate::refcodec;
use crate::tree::{hex, Tree};
use std::cell::RefCell;
use std::collections::{BTreeMap, HashSet};
use std::panic::{catch_unwind, AssertUnwindSafe};

#[derive(Clone, Copy, PartialEq, Eq, Debug)]
pub enum Tier {
    Quick,
    Thorough,
}

#[derive(Clone, Debug)]
pub struct Violation {
    pub sig: String,
    pub detail: String,
    pub shard: usize,
    pub case_no: u64,
    pub count: u64,
}

pub struct Ctx {
    pub prop: &'static str,
    pub rng: Rng,
    pub shard: usize,
    pub nshards: usize,
    pub tier: Tier,
    /// budget multiplier (Miri / ASan / env override)
    pub scale: f64,
    pub miri: bool,
    pub case_no: u64,
    /// oracle evaluations (inputs judged); >= case_no when a case judges many inputs
    pub evals: u64,
    pub counters: BTreeMap<String, u64>,
    pub distinct: HashSet<u64>,
    pub samples: Vec<String>,
    pub violations: BTreeMap<String, Violation>,
    pub exhaustive: BTreeMap<String, bool>,
    pub stop_at_first: bool,
    pub stop_case: Option<u64>,
    pub notes: Vec<String>,
}

/// path of the incremental witness file (`<report>.partial`): every new signature is appended the
/// moment it is found, so witnesses survive a process that is killed later
pub static PARTIAL_PATH: std::sync::Mutex<Option<String>> = std::sync::Mutex::new(None);

fn append_partial(v: &Violation) {
    if let Ok(g) = PARTIAL_PATH.lock() {
        if let Some(p) = g.as_ref() {
            use std::io::Write;
            if let Ok(mut f) = std::fs::OpenOptions::new().create(true).append(true).open(p) {
                let line = serde_json::json!({"sig": v.sig, "count": 1, "shard": v.shard, "case_no": v.case_no, "detail": v.detail});
                let _ = writeln!(f, "{}", line);
            }
        }
    }
}

thread_local! {
    static LAST_PANIC: RefCell<Option<(String, String)>> = RefCell::new(None);
}

pub fn install_panic_hook() {
    std::panic::set_hook(Box::new(|info| {
        let msg = if let Some(s) = info.payload().downcast_ref::<&str>() {
            s.to_string()
        } else if let Some(s) = info.payload().downcast_ref::<String>() {
            s.clone()
        } else {
            "<non-string panic>".to_string()
        };
        let loc = info.location().map(|l| format!("{}:{}", l.file(), l.line())).unwrap_or_default();
        LAST_PANIC.with(|p| *p.borrow_mut() = Some((msg, loc)));
    }));
}

#[derive(Debug, Clone)]
pub struct Panicked {
    pub msg: String,
    pub loc: String,
}

impl Panicked {
    /// signature class: file (no line) + message with digits collapsed
    pub fn class(&self) -> String {
        let file = self.loc.rsplit('/').next().unwrap_or("").split(':').next().unwrap_or("").to_string();
        let mut m = String::new();
        let mut last_digit = false;
        for c in self.msg.chars().take(60) {
            if c.is_ascii_digit() {
                if !last_digit {
                    m.push('N');
                }
                last_digit = true;
            } else {
                last_digit = false;
                m.push(if c.is_whitespace() { '_' } else { c });
            }
        }
        format!("{}:{}", file, m)
    }
}

pub fn take_last_panic() -> Option<(String, String)> {
    LAST_PANIC.with(|p| p.borrow_mut().take())
}

/// run a library call under the panic monitor
pub fn guard<T>(f: impl FnOnce() -> T) -> Result<T, Panicked> {
    match catch_unwind(AssertUnwindSafe(f)) {
        Ok(v) => Ok(v),
        Err(_) => {
            let (msg, loc) = LAST_PANIC.with(|p| p.borrow_mut().take()).unwrap_or_default();
            Err(Panicked { msg, loc })
        }
    }
}

impl Ctx {
    pub fn new(prop: &'static str, seed: u64, shard: usize, nshards: usize, tier: Tier, scale: f64, miri: bool) -> Ctx {
        let s = crate::prng::mix(crate::prng::mix(seed, crate::prng::hash_bytes(prop.as_bytes())), shard as u64);
        Ctx {
            prop,
            rng: Rng::new(s),
            shard,
            nshards,
            tier,
            scale,
            miri,
            case_no: 0,
            evals: 0,
            counters: BTreeMap::new(),
            distinct: HashSet::new(),
            samples: Vec::new(),
            violations: BTreeMap::new(),
            exhaustive: BTreeMap::new(),
            stop_at_first: false,
            stop_case: None,
            notes: Vec::new(),
        }
    }

    /// number of cases for this shard given per-tier totals (total across all shards)
    pub fn budget(&self, quick_total: u64, thorough_total: u64) -> u64 {
        let t = match self.tier {
            Tier::Quick => quick_total,
            Tier::Thorough => thorough_total,
        };
        let per = (t as f64 * self.scale / self.nshards as f64).ceil() as u64;
        per.max(1)
    }

    /// cases per shard under Miri (about 300 interpreted library calls per shard); `scale` multiplies it
    pub fn miri_cases(&self, per_shard: u64) -> u64 {
        ((per_shard as f64 * self.scale).ceil() as u64).max(1)
    }

    pub fn count(&mut self, key: &str) {
        *self.counters.entry(key.to_string()).or_insert(0) += 1;
    }
    pub fn count_n(&mut self, key: &str, n: u64) {
        *self.counters.entry(key.to_string()).or_insert(0) += n;
    }

    /// begin a new case; returns false if the run should stop (replay mode reached its case)
    pub fn next_case(&mut self) -> bool {
        self.case_no += 1;
        if let Some(s) = self.stop_case {
            if self.case_no > s {
                return false;
            }
        }
        if self.stop_at_first && !self.violations.is_empty() {
            return false;
        }
        true
    }

    /// register a distinct, non-trivial case by structural hash
    pub fn distinct(&mut self, h: u64) {
        if self.distinct.len() < 500_000 {
            self.distinct.insert(h);
        }
    }

    pub fn sample(&mut self, f: impl FnOnce() -> String) {
        // keep a handful of cases spread over the run
        if self.samples.len() < 6 && (self.case_no % 977 == 1 || self.samples.is_empty()) {
            let s = f();
            let s = if s.len() > 700 { format!("{}…", &s[..s.char_indices().take_while(|(i, _)| *i < 700).last().map(|(i, _)| i).unwrap_or(0)]) } else { s };
            self.samples.push(s);
        }
    }

    pub fn violation(&mut self, sig: &str, detail: impl FnOnce() -> String) {
        let key = format!("{}/{}", self.prop, sig);
        if let Some(v) = self.violations.get_mut(&key) {
            v.count += 1;
            return;
        }
        if self.violations.len() >= 200 {
            return;
        }
        let d = detail();
        let v = Violation { sig: key.clone(), detail: d, shard: self.shard, case_no: self.case_no, count: 1 };
        append_partial(&v);
        self.violations.insert(key, v);
    }

    // ---------------------------------------------------------------- cross-cutting monitors

    /// canonical-form monitor: every JSONB byte string the library hands back
    pub fn check_canonical(&mut self, what: &str, bytes: &[u8], ctxinfo: &dyn Fn() -> String) -> Option<Tree> {
        self.count("monitor.canonical");
        match refcodec::canonical(bytes) {
            Ok(t) => Some(t),
            Err(e) => {
                self.violation(&format!("{}/non-canonical", what), || {
                    format!("{} returned non-canonical JSONB ({}): bytes={} ; {}", what, e, hex(bytes), ctxinfo())
                });
                None
            }
        }
    }

    /// expect canonical bytes equal to the encoding of `expected`
    pub fn check_doc(&mut self, what: &str, bytes: &[u8], expected: &Tree, ctxinfo: &dyn Fn() -> String) -> bool {
        self.count("monitor.canonical");
        let exp = refcodec::encode(expected);
        if exp == bytes {
            return true;
        }
        match refcodec::canonical(bytes) {
            Ok(t) => {
                self.violation(&format!("{}/wrong-result", what), || {
                    format!(
                        "{}: result differs from the tree result. got={} expected={} got_bytes={} ; {}",
                        what,
                        t.show(),
                        expected.show(),
                        hex(bytes),
                        ctxinfo()
                    )
                });
            }
            Err(e) => {
                self.violation(&format!("{}/non-canonical", what), || {
                    format!(
                        "{} returned non-canonical JSONB ({}): bytes={} expected={} ({}) ; {}",
                        what,
                        e,
                        hex(bytes),
                        expected.show(),
                        hex(&exp),
                        ctxinfo()
                    )
                });
            }
        }
        false
    }

    /// UTF-8 monitor on raw bytes of a returned str
    pub fn check_utf8(&mut self, what: &str, bytes: &[u8], ctxinfo: &dyn Fn() -> String) -> bool {
        self.count("monitor.utf8");
        if std::str::from_utf8(bytes).is_ok() {
            return true;
        }
        self.violation(&format!("{}/non-utf8", what), || {
            format!("{} returned a str that is not UTF-8: {} ; {}", what, hex(bytes), ctxinfo())
        });
        false
    }

    pub fn panic_violation(&mut self, what: &str, p: &Panicked, ctxinfo: &dyn Fn() -> String) {
        self.violation(&format!("{}/panic/{}", what, p.class()), || {
            format!("{} panicked: '{}' at {} ; {}", what, p.msg, p.loc, ctxinfo())
        });
    }
}

/// Append-only monitor for buffer-writing functions: runs `f` on an empty buffer and on a
/// pre-filled one; prefix must be intact and the appended suffix identical. Returns the
/// empty-buffer outcome (Ok(bytes) / Err(display)).
pub fn append_only<E: std::fmt::Debug>(
    ctx: &mut Ctx,
    what: &str,
    prefill: &[u8],
    f: &dyn Fn(&mut Vec<u8>) -> Result<(), E>,
    ctxinfo: &dyn Fn() -> String,
) -> Option<Result<Vec<u8>, String>> {
    ctx.count("monitor.append_only");
    let mut empty = Vec::new();
    let r1 = match guard(|| f(&mut empty)) {
        Ok(r) => r,
        Err(p) => {
            ctx.panic_violation(what, &p, ctxinfo);
            return None;
        }
    };
    let mut pre = prefill.to_vec();
    let r2 = match guard(|| f(&mut pre)) {
        Ok(r) => r,
        Err(p) => {
            ctx.panic_violation(&format!("{}(prefilled)", what), &p, ctxinfo);
            return None;
        }
    };
    if pre.len() < prefill.len() || &pre[..prefill.len()] != prefill {
        ctx.violation(&format!("{}/append/prefix-clobbered", what), || {
            format!("{}: bytes already in the buffer were modified. before={} after={} ; {}", what, hex(prefill), hex(&pre), ctxinfo())
        });
    } else if r1.is_ok() != r2.is_ok() {
        ctx.violation(&format!("{}/append/outcome-differs", what), || {
            format!("{}: Ok/Err outcome depends on buffer content: empty={:?} prefilled={:?} ; {}", what, r1.as_ref().err(), r2.as_ref().err(), ctxinfo())
        });
    } else if pre[prefill.len()..] != empty[..] {
        ctx.violation(&format!("{}/append/suffix-differs", what), || {
            format!(
                "{}: appended bytes differ from empty-buffer output. empty={} appended={} ; {}",
                what,
                hex(&empty),
                hex(&pre[prefill.len()..]),
                ctxinfo()
            )
        });
    }
    Some(match r1 {
        Ok(()) => Ok(empty),
        Err(e) => {
            if !empty.is_empty() {
                ctx.violation(&format!("{}/append/err-wrote", what), || {
                    format!("{}: returned Err({:?}) but appended {} bytes ({}) ; {}", what, e, empty.len(), hex(&empty), ctxinfo())
                });
            }
            Err(format!("{:?}", e))
        }
    })
}
